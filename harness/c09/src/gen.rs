//! Enumerators of model values (smallest first).
//!
//! Tree size: an atom (and the empty record) has size 1; a record has size
//! `1 + sum(parts)` where an attribute counts as the size of its value, a value item as the size
//! of the value and a slot as `size(key) + size(value)`. Records have at most 2 attributes and at
//! most 2 items.

use num_bigint::BigInt;
use swimos_model::{Attr, Blob, Item, Text, Value};

pub const NAMES: [&str; 4] = ["a", "a b", "", "true"];

pub fn text_atoms() -> Vec<&'static str> {
    // "inf", "info", "NaN", "false": identifiers that are, or begin with, a word of the numeric /
    // boolean grammar (a text printed bare must not be read back as a number)
    vec!["", "a", "true", "a b", "\"", "\\", "\u{0}", "\n", "é", "\u{10FFFF}", "@x", "1", "inf", "info", "NaN", "false"]
}

pub fn atoms_full() -> Vec<Value> {
    let mut v = vec![Value::Extant];
    for n in [0, -1, i32::MAX, i32::MIN] {
        v.push(Value::Int32Value(n));
    }
    v.push(Value::Int64Value(i64::MIN));
    v.push(Value::Int64Value(i64::MAX));
    v.push(Value::UInt32Value(u32::MAX));
    v.push(Value::UInt64Value(u64::MAX));
    let two64: BigInt = BigInt::from(u64::MAX) + 1u32;
    v.push(Value::BigInt(two64.clone()));
    v.push(Value::BigInt(-two64));
    for x in [0.0f64, -0.0, 1.5, 1e300, f64::MIN_POSITIVE] {
        v.push(Value::Float64Value(x));
    }
    v.push(Value::BooleanValue(true));
    v.push(Value::BooleanValue(false));
    for t in text_atoms() {
        v.push(Value::Text(Text::new(t)));
    }
    v.push(Value::Data(Blob::from_vec(vec![])));
    v.push(Value::Data(Blob::from_vec(vec![0, 255])));
    v
}

/// One representative per lexical class (used where the full pool is too large).
pub fn atoms_reduced() -> Vec<Value> {
    vec![
        Value::Extant,
        Value::Int32Value(-1),
        Value::UInt64Value(u64::MAX),
        Value::Float64Value(1.5),
        Value::BooleanValue(true),
        Value::Text(Text::new("a")),
        Value::Text(Text::new("a b")),
        Value::Text(Text::new("info")),
        Value::Text(Text::new("\u{0}")),
        Value::Text(Text::new("é")),
        Value::Text(Text::new("")),
        Value::Data(Blob::from_vec(vec![0, 255])),
    ]
}

#[derive(Clone, Debug, PartialEq, Eq)]
pub enum Part {
    Attr { name: usize, vs: usize },
    Val { s: usize },
    Slot { ks: usize, vs: usize },
}

#[derive(Clone, Debug)]
pub struct Shape {
    pub parts: Vec<Part>,
}

/// All ordered ways of writing `total` as a sum of `n` positive integers.
fn compositions(total: usize, n: usize) -> Vec<Vec<usize>> {
    if n == 0 {
        return if total == 0 { vec![vec![]] } else { vec![] };
    }
    let mut out = vec![];
    for first in 1..=total {
        for mut rest in compositions(total - first, n - 1) {
            let mut c = vec![first];
            c.append(&mut rest);
            out.push(c);
        }
    }
    out
}

/// Shapes of the records of size `s` (s >= 2).
pub fn shapes(s: usize) -> Vec<Shape> {
    let body = s - 1;
    let mut out = vec![];
    for na in 0..=2usize {
        for ni in 0..=2usize {
            if na + ni == 0 {
                continue;
            }
            // each item is a value (1 unit of the composition) or a slot (2 units: key, value)
            for slot_mask in 0..(1u32 << ni) {
                let units = na + (0..ni).map(|i| if slot_mask & (1 << i) != 0 { 2 } else { 1 }).sum::<usize>();
                for comp in compositions(body, units) {
                    // attribute names
                    let mut name_choices: Vec<Vec<usize>> = vec![vec![]];
                    for _ in 0..na {
                        let mut next = vec![];
                        for c in &name_choices {
                            for n in 0..NAMES.len() {
                                let mut c2 = c.clone();
                                c2.push(n);
                                next.push(c2);
                            }
                        }
                        name_choices = next;
                    }
                    for names in name_choices {
                        let mut parts = vec![];
                        let mut u = 0;
                        for a in 0..na {
                            parts.push(Part::Attr { name: names[a], vs: comp[u] });
                            u += 1;
                        }
                        for i in 0..ni {
                            if slot_mask & (1 << i) != 0 {
                                parts.push(Part::Slot { ks: comp[u], vs: comp[u + 1] });
                                u += 2;
                            } else {
                                parts.push(Part::Val { s: comp[u] });
                                u += 1;
                            }
                        }
                        out.push(Shape { parts });
                    }
                }
            }
        }
    }
    out
}

pub struct Space {
    /// vals[s] = all values of size s (index 0 unused), memoised up to `memo`.
    pub vals: Vec<Vec<Value>>,
    pub counts: Vec<u64>,
}

impl Space {
    pub fn new(atoms: Vec<Value>, memo: usize) -> Space {
        let mut sp = Space { vals: vec![vec![]], counts: vec![0] };
        let mut one = atoms;
        one.push(Value::Record(vec![], vec![]));
        sp.counts.push(one.len() as u64);
        sp.vals.push(one);
        for s in 2..=memo {
            let mut all = vec![];
            for sh in shapes(s) {
                let n = sp.shape_count(&sh);
                for i in 0..n {
                    all.push(sp.build(&sh, i));
                }
            }
            sp.counts.push(all.len() as u64);
            sp.vals.push(all);
        }
        sp
    }

    /// Number of values of size `s` (s may be memo+1: computed from shapes).
    pub fn count(&self, s: usize) -> u64 {
        if s < self.counts.len() {
            self.counts[s]
        } else {
            shapes(s).iter().map(|sh| self.shape_count(sh)).sum()
        }
    }

    fn radix(&self, p: &Part) -> u64 {
        match p {
            Part::Attr { vs, .. } => self.counts[*vs],
            Part::Val { s } => self.counts[*s],
            Part::Slot { ks, vs } => self.counts[*ks] * self.counts[*vs],
        }
    }

    pub fn shape_count(&self, sh: &Shape) -> u64 {
        sh.parts.iter().map(|p| self.radix(p)).product()
    }

    pub fn build(&self, sh: &Shape, mut idx: u64) -> Value {
        let mut attrs = vec![];
        let mut items = vec![];
        for p in &sh.parts {
            let r = self.radix(p);
            let i = idx % r;
            idx /= r;
            match p {
                Part::Attr { name, vs } => {
                    attrs.push(Attr { name: Text::new(NAMES[*name]), value: self.vals[*vs][i as usize].clone() });
                }
                Part::Val { s } => items.push(Item::ValueItem(self.vals[*s][i as usize].clone())),
                Part::Slot { ks, vs } => {
                    let nk = self.counts[*ks];
                    let k = &self.vals[*ks][(i % nk) as usize];
                    let v = &self.vals[*vs][(i / nk) as usize];
                    items.push(Item::Slot(k.clone(), v.clone()));
                }
            }
        }
        Value::Record(attrs, items)
    }
}

/// The three linear families of depth `d` (d >= 1).
pub fn linear(family: usize, d: usize) -> Value {
    match family {
        0 => {
            let mut v = Value::Int32Value(1);
            for _ in 0..d {
                v = Value::Record(vec![], vec![Item::ValueItem(v)]);
            }
            v
        }
        1 => {
            let mut v = Value::Extant;
            for _ in 0..d {
                v = Value::Record(vec![Attr { name: Text::new("a"), value: v }], vec![]);
            }
            v
        }
        _ => {
            let mut v = Value::Int32Value(1);
            for _ in 0..d {
                v = Value::Record(vec![], vec![Item::Slot(Value::Text(Text::new("a")), v)]);
            }
            v
        }
    }
}

pub const LINEAR_NAMES: [&str; 3] = ["{{..{1}..}}", "@a(@a(..))", "{a:{a:..}}"];

/// Long texts (one per boundary character) and long blobs of about `bytes` bytes.
pub fn big_values(bytes: usize) -> Vec<(String, Value)> {
    let mut out = vec![];
    for c in ['a', ' ', '"', '\\', '\u{0}', '\n', 'é', '\u{10FFFF}', '@', '1'] {
        let n = bytes / c.len_utf8();
        let s: String = std::iter::repeat(c).take(n).collect();
        out.push((format!("text {:?} x {}", c, n), Value::Text(Text::new(&s))));
    }
    out.push((format!("blob 0x00 x {}", bytes), Value::Data(Blob::from_vec(vec![0u8; bytes]))));
    out.push((format!("blob 0xff x {}", bytes), Value::Data(Blob::from_vec(vec![255u8; bytes]))));
    out.push((
        format!("blob i%256 x {}", bytes + 1),
        Value::Data(Blob::from_vec((0..bytes + 1).map(|i| (i % 256) as u8).collect())),
    ));
    out
}

/// Every escape sequence a string literal can contain: `"\\uXXXX"` for all 65536 code units,
/// `"\\c"` for every printable ASCII `c`, and the malformed / repeated-`u` forms.
pub fn escape_texts() -> Vec<String> {
    let mut out = vec![];
    for u in 0..=0xFFFFu32 {
        out.push(format!("\"\\u{:04x}\"", u));
    }
    for c in 0x20u8..0x7f {
        out.push(format!("\"\\{}\"", c as char));
    }
    for t in ["\"\\", "\"\\u", "\"\\u0", "\"\\u00", "\"\\u004", "\"\\u\"", "\"\\u004\"", "\"\\uu0041\"", "\"\\uuu0041\"", "\"\\u00G1\"",
              "\"\\U0041\"", "\"\\u0041\\u0042\"", "\"a\\u0041b\"", "\"\\ud83d\\ude00\"", "{a:\"\\u0041\"}", "@a(\"\\n\")", "\"\\\\u0041\""] {
        out.push(t.to_string());
    }
    out
}

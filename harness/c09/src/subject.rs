//! Every call into the code under test goes through this module: each call is wrapped in
//! `catch_unwind`, counted, and the resumable decoders are driven with a step bound.

use bytes::BytesMut;
use std::cell::Cell;
use std::panic::{catch_unwind, AssertUnwindSafe};
use swimos_form::read::RecognizerReadable;
use swimos_form::write::StructuralWritable;
use swimos_recon::parser::{parse_recognize, RecognizerDecoder};
use swimos_recon::{print_recon, print_recon_compact, print_recon_pretty, WithLenRecognizerDecoder};
use tokio_util::codec::Decoder;

pub const PRINTERS: [&str; 3] = ["standard", "compact", "pretty"];

thread_local! {
    static CALLS: Cell<u64> = const { Cell::new(0) };
}

fn tick() {
    CALLS.with(|c| c.set(c.get() + 1));
}

/// Calls into the implementation made so far on this thread.
pub fn calls() -> u64 {
    CALLS.with(|c| c.get())
}

pub fn panic_msg(e: Box<dyn std::any::Any + Send>) -> String {
    if let Some(s) = e.downcast_ref::<&str>() {
        s.to_string()
    } else if let Some(s) = e.downcast_ref::<String>() {
        s.clone()
    } else {
        "<non-string panic payload>".into()
    }
}

/// Print with printer `i` (0 standard, 1 compact, 2 pretty). `Err` = the printer panicked.
pub fn print<T: StructuralWritable>(i: usize, v: &T) -> Result<String, String> {
    tick();
    catch_unwind(AssertUnwindSafe(|| match i {
        0 => format!("{}", print_recon(v)),
        1 => format!("{}", print_recon_compact(v)),
        _ => format!("{}", print_recon_pretty(v)),
    }))
    .map_err(panic_msg)
}

#[derive(Debug, Clone)]
pub enum Out<T> {
    Ok(T),
    Err(String),
    /// The decoder reported no item although the whole input (and end of input) was supplied.
    Nothing,
    Panic(String),
    /// The step bound of the driving loop was exceeded.
    Hang,
}

impl<T> Out<T> {
    pub fn class(&self) -> &'static str {
        match self {
            Out::Ok(_) => "ok",
            Out::Err(_) => "err",
            Out::Nothing => "nothing",
            Out::Panic(_) => "panic",
            Out::Hang => "hang",
        }
    }
    pub fn ok(&self) -> Option<&T> {
        match self {
            Out::Ok(v) => Some(v),
            _ => None,
        }
    }
    pub fn same(&self, other: &Out<T>, eq: &dyn Fn(&T, &T) -> bool) -> bool {
        match (self, other) {
            (Out::Ok(a), Out::Ok(b)) => eq(a, b),
            (Out::Err(_), Out::Err(_)) => true,
            _ => false,
        }
    }
    pub fn describe(&self) -> String
    where
        T: std::fmt::Debug,
    {
        match self {
            Out::Ok(v) => {
                let s = format!("Ok({:?})", v);
                if s.len() > 300 {
                    format!("{}.. ({} chars)", s.chars().take(300).collect::<String>(), s.len())
                } else {
                    s
                }
            }
            Out::Err(e) => format!("Err({})", e),
            Out::Nothing => "no item at end of input".into(),
            Out::Panic(m) => format!("PANIC({})", m),
            Out::Hang => "HANG (step bound exceeded)".into(),
        }
    }
}

/// The one-shot parser.
pub fn parse<T: RecognizerReadable>(text: &str) -> Out<T> {
    tick();
    match catch_unwind(AssertUnwindSafe(|| parse_recognize::<T>(text, false))) {
        Ok(Ok(v)) => Out::Ok(v),
        Ok(Err(e)) => Out::Err(format!("{}", e)),
        Err(p) => Out::Panic(panic_msg(p)),
    }
}

/// Drive a fresh `RecognizerDecoder` through the chunks (bytes appended chunk by chunk, `decode`
/// after each, `decode_eof` at the end); then check that the same decoder instance is reusable by
/// giving it `sentinel` in one piece. Returns (result for the text, result for the sentinel).
pub fn run_recognizer_decoder<T: RecognizerReadable>(chunks: &[&[u8]], sentinel: &[u8]) -> (Out<T>, Out<T>) {
    let r = catch_unwind(AssertUnwindSafe(|| {
        let mut dec = RecognizerDecoder::new(T::make_recognizer());
        let mut buf = BytesMut::new();
        let mut first: Option<Out<T>> = None;
        for ch in chunks {
            buf.extend_from_slice(ch);
            tick();
            match dec.decode(&mut buf) {
                Ok(Some(v)) => {
                    first = Some(Out::Ok(v));
                    break;
                }
                Ok(None) => {}
                Err(e) => {
                    first = Some(Out::Err(format!("{}", e)));
                    break;
                }
            }
        }
        let first = first.unwrap_or_else(|| {
            tick();
            match dec.decode_eof(&mut buf) {
                Ok(Some(v)) => Out::Ok(v),
                Ok(None) => Out::Nothing,
                Err(e) => Out::Err(format!("{}", e)),
            }
        });
        let mut buf = BytesMut::new();
        buf.extend_from_slice(sentinel);
        tick();
        let second = match dec.decode_eof(&mut buf) {
            Ok(Some(v)) => Out::Ok(v),
            Ok(None) => Out::Nothing,
            Err(e) => Out::Err(format!("{}", e)),
        };
        (first, second)
    }));
    match r {
        Ok(x) => x,
        Err(p) => {
            let m = panic_msg(p);
            (Out::Panic(m.clone()), Out::Panic(m))
        }
    }
}

pub fn frame(body: &[u8]) -> Vec<u8> {
    let mut f = (body.len() as u64).to_be_bytes().to_vec();
    f.extend_from_slice(body);
    f
}

/// Drive a fresh `WithLenRecognizerDecoder` through the chunks of a length-prefixed frame, then
/// through a whole sentinel frame. Every item or error the decoder yields is collected; a correct
/// decoder yields exactly two results (the frame's, the sentinel's).
pub fn run_with_len_decoder<T: RecognizerReadable>(chunks: &[&[u8]], sentinel_frame: &[u8]) -> Vec<Out<T>> {
    let total: usize = chunks.iter().map(|c| c.len()).sum::<usize>() + sentinel_frame.len();
    let bound = 2 * total + 16;
    let r = catch_unwind(AssertUnwindSafe(|| {
        let mut dec = WithLenRecognizerDecoder::new(T::make_recognizer());
        let mut buf = BytesMut::new();
        let mut results: Vec<Out<T>> = vec![];
        let mut steps = 0usize;
        let mut all: Vec<&[u8]> = chunks.to_vec();
        all.push(sentinel_frame);
        'outer: for ch in all {
            buf.extend_from_slice(ch);
            loop {
                steps += 1;
                if steps > bound {
                    results.push(Out::Hang);
                    break 'outer;
                }
                tick();
                match dec.decode(&mut buf) {
                    Ok(Some(v)) => results.push(Out::Ok(v)),
                    Ok(None) => break,
                    Err(e) => results.push(Out::Err(format!("{}", e))),
                }
            }
        }
        results
    }));
    match r {
        Ok(x) => x,
        Err(p) => vec![Out::Panic(panic_msg(p))],
    }
}

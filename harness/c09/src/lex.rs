//! A tiny, forgiving lexer of Recon-like text, used only to *describe* where a failing cut lies
//! (signatures). It never decides well-formedness.

#[derive(Clone, Debug)]
pub struct Tok {
    pub start: usize,
    pub end: usize,
    pub kind: &'static str,
    pub depth: usize,
}

fn ident_start(c: char) -> bool {
    c.is_ascii_alphabetic() || c == '_' || !c.is_ascii()
}

fn ident_char(c: char) -> bool {
    ident_start(c) || c.is_ascii_digit() || c == '-'
}

pub fn lex(text: &str) -> Vec<Tok> {
    let cs: Vec<(usize, char)> = text.char_indices().collect();
    let n = cs.len();
    let off = |i: usize| if i < n { cs[i].0 } else { text.len() };
    let mut out = vec![];
    let mut i = 0;
    let mut depth = 0usize;
    let mut after_at = false;
    while i < n {
        let c = cs[i].1;
        let s = i;
        let kind: &'static str;
        let mut this_depth = depth;
        if c == '"' {
            i += 1;
            while i < n && cs[i].1 != '"' {
                if cs[i].1 == '\\' {
                    i += 1;
                }
                i += 1;
            }
            i = (i + 1).min(n);
            kind = if after_at { "attr_name_string" } else { "string" };
        } else if c == '%' {
            i += 1;
            while i < n && (cs[i].1.is_ascii_alphanumeric() || matches!(cs[i].1, '+' | '/' | '=')) {
                i += 1;
            }
            kind = "blob";
        } else if c.is_ascii_digit() || (c == '-' && i + 1 < n && cs[i + 1].1.is_ascii_digit()) {
            i += 1;
            while i < n && (cs[i].1.is_ascii_alphanumeric() || matches!(cs[i].1, '.' | '+' | '-')) {
                // a '-' or '+' continues the number only directly after an exponent marker
                if matches!(cs[i].1, '+' | '-') && !matches!(cs[i - 1].1, 'e' | 'E') {
                    break;
                }
                i += 1;
            }
            kind = "number";
        } else if ident_start(c) {
            while i < n && ident_char(cs[i].1) {
                i += 1;
            }
            let word = &text[off(s)..off(i)];
            kind = if after_at {
                "attr_name"
            } else if word == "true" || word == "false" {
                "bool"
            } else {
                "identifier"
            };
        } else if c == ' ' || c == '\t' {
            while i < n && (cs[i].1 == ' ' || cs[i].1 == '\t') {
                i += 1;
            }
            kind = "space";
        } else if c == '\n' || c == '\r' {
            while i < n && (cs[i].1 == '\n' || cs[i].1 == '\r') {
                i += 1;
            }
            kind = "newline";
        } else {
            i += 1;
            kind = match c {
                '{' => {
                    depth += 1;
                    "{"
                }
                '(' => {
                    depth += 1;
                    "("
                }
                '}' => {
                    depth = depth.saturating_sub(1);
                    this_depth = depth;
                    "}"
                }
                ')' => {
                    depth = depth.saturating_sub(1);
                    this_depth = depth;
                    ")"
                }
                '@' => "@",
                ':' => ":",
                ',' => ",",
                ';' => ";",
                '-' => "-",
                _ => "other",
            };
        }
        after_at = kind == "@";
        out.push(Tok { start: off(s), end: off(i), kind, depth: this_depth });
    }
    out
}

/// Describe byte offset `cut` (0 < cut < len) of `text`.
pub fn describe_cut(text: &str, toks: &[Tok], cut: usize) -> String {
    let ctx = |d: usize| if d == 0 { "top" } else { "nested" };
    for (k, t) in toks.iter().enumerate() {
        if t.start < cut && cut < t.end {
            let mid = if text.is_char_boundary(cut) { "" } else { "(mid_utf8)" };
            return format!("in:{}{}@{}", t.kind, mid, ctx(t.depth));
        }
        if t.start == cut {
            let left = if k > 0 { toks[k - 1].kind } else { "start" };
            let d = if k > 0 { toks[k - 1].depth.max(t.depth) } else { t.depth };
            // depth of a boundary: the deeper side unless that side is the closing bracket
            let d = if matches!(t.kind, "}" | ")") { toks[k - 1].depth.max(t.depth) } else { d };
            return format!("between:{}|{}@{}", left, t.kind, ctx(d));
        }
    }
    "at:end".into()
}

//! The oracles of C09.

use crate::lex;
use crate::model::{has_non_finite, ref_print, reductions, skeleton, strict_eq, to_json};
use crate::subject::{self, frame, parse, print, Out, PRINTERS};
use serde_json::{json, Value as J};
use std::collections::BTreeMap;
use swimos_form::read::RecognizerReadable;
use swimos_model::Value;
use vcommon::cuts;

/// One violated law on one input.
#[derive(Clone, Debug)]
#[allow(dead_code)]
pub struct Viol {
    pub law: &'static str,
    /// Signature without the input description (law, printers / decoder, outcome class, locus).
    pub sig: String,
    pub what: String,
    /// Replay detail.
    pub detail: J,
    /// Ordering key: smaller = reported in preference (smallest counterexample first).
    pub key: (usize, String),
}

pub const SENTINEL: &str = "{x:1}";

fn set_str(v: &[&str]) -> String {
    let mut v: Vec<&str> = v.to_vec();
    v.sort();
    v.dedup();
    v.join("+")
}

// ------------------------------------------------------------------------------- value laws

#[derive(Default, Clone)]
pub struct ValueLaws {
    /// law -> (printers involved, outcome classes, human text)
    pub failed: BTreeMap<&'static str, (Vec<&'static str>, Vec<&'static str>, String)>,
    pub producible: bool,
    pub evaluations: u64,
}

impl ValueLaws {
    fn fail(&mut self, law: &'static str, printer: &'static str, got: &'static str, what: String) {
        let e = self.failed.entry(law).or_insert_with(|| (vec![], vec![], what));
        e.0.push(printer);
        e.1.push(got);
    }
}

/// Evaluate oracles (1), (2) and the no-panic part of (4) on one model value.
///
/// * `v` is *parser-producible* iff the one-shot parser returns exactly `v` on the independent
///   reference rendering of `v` (or `force_producible`: the caller obtained `v` from the parser).
///   Then `parse(print_i(v)) == v` (exactly) for the three printers: law `roundtrip`.
/// * otherwise `w_i = parse(print_i(v))` must exist (law `cycle_defined`).
/// * every `w_i` that differs from `v` is parser-produced, so `parse(print_j(w_i)) == w_i` for the
///   three printers j: law `fixed_point` (j = i is the fixed point of `parse . print_i`).
pub fn value_laws(v: &Value, force_producible: bool) -> ValueLaws {
    let mut r = ValueLaws::default();
    let mut producible = force_producible;
    if !producible {
        let t1 = ref_print(v);
        let t2 = crate::model::ref_print_braced(v);
        for t in if t1 == t2 { vec![t1] } else { vec![t1, t2] } {
            match parse::<Value>(&t) {
                Out::Ok(w) => producible = producible || strict_eq(&w, v),
                Out::Panic(m) => r.fail("no_panic", "reference_text", "panic", format!("one-shot parser panicked on {:?}: {}", t, m)),
                _ => {}
            }
            if producible {
                break;
            }
        }
    }
    r.producible = producible;
    // The property is stated for finite floating point values: NaN / infinities (which the parser
    // can produce from e.g. "1e999") are only subject to the no-panic law.
    let finite = !has_non_finite(v);
    let mut images: Vec<(usize, Value)> = vec![];
    for i in 0..3 {
        r.evaluations += 1;
        let text = match print(i, v) {
            Ok(t) => t,
            Err(m) => {
                r.fail("no_panic", PRINTERS[i], "print_panic", format!("printer panicked: {}", m));
                continue;
            }
        };
        let o = parse::<Value>(&text);
        match &o {
            Out::Panic(m) => r.fail("no_panic", PRINTERS[i], "parse_panic", format!("one-shot parser panicked on {:?}: {}", text, m)),
            Out::Ok(w) => {
                if !finite || has_non_finite(w) {
                    continue;
                }
                if !strict_eq(w, v) {
                    if producible {
                        r.fail(
                            "roundtrip",
                            PRINTERS[i],
                            "other_value",
                            format!("print_{}(v) = {:?} parses to {:?}", PRINTERS[i], clip(&text), clipd(w)),
                        );
                    }
                    if !images.iter().any(|(_, x)| strict_eq(x, w)) {
                        images.push((i, w.clone()));
                    }
                }
            }
            _ if !finite => {}
            other => {
                let law = if producible { "roundtrip" } else { "cycle_defined" };
                r.fail(law, PRINTERS[i], "parse_error", format!("print_{}(v) = {:?} does not parse: {}", PRINTERS[i], clip(&text), other.describe()));
            }
        }
    }
    for (i, w) in images {
        for j in 0..3 {
            r.evaluations += 1;
            let text = match print(j, &w) {
                Ok(t) => t,
                Err(m) => {
                    r.fail("no_panic", PRINTERS[j], "print_panic", format!("printer panicked on parsed value {:?}: {}", clipd(&w), m));
                    continue;
                }
            };
            match parse::<Value>(&text) {
                Out::Ok(x) if strict_eq(&x, &w) => {}
                Out::Panic(m) => r.fail("no_panic", PRINTERS[j], "parse_panic", format!("one-shot parser panicked on {:?}: {}", text, m)),
                other => {
                    let got = if matches!(other, Out::Ok(_)) { "other_value" } else { "parse_error" };
                    r.fail(
                        "fixed_point",
                        PRINTERS[j],
                        got,
                        format!(
                            "w = parse(print_{}(v)) = {:?}; print_{}(w) = {:?} gives {}",
                            PRINTERS[i],
                            clipd(&w),
                            PRINTERS[j],
                            clip(&text),
                            other.describe()
                        ),
                    );
                }
            }
        }
    }
    r
}

fn clip(s: &str) -> String {
    if s.chars().count() > 200 {
        format!("{}.. ({} bytes)", s.chars().take(200).collect::<String>(), s.len())
    } else {
        s.to_string()
    }
}

fn clipd<T: std::fmt::Debug>(v: &T) -> String {
    clip(&format!("{:?}", v))
}

const GROUP_A: [&str; 3] = ["roundtrip", "cycle_defined", "fixed_point"];

thread_local! {
    /// canonical value -> bit 0: the value or one of its (transitive) reductions fails a law of
    /// group A; bit 1: ... fails `no_panic`.
    static CLOSURE: std::cell::RefCell<std::collections::HashMap<String, u8>> = std::cell::RefCell::new(std::collections::HashMap::new());
}

/// Forget the memoised closure results (called at the start of every job so that the measured
/// counts do not depend on which worker thread ran which job).
pub fn reset_cache() {
    CLOSURE.with(|c| c.borrow_mut().clear());
}

fn law_bits(l: &ValueLaws) -> u8 {
    let mut b = 0;
    if GROUP_A.iter().any(|g| l.failed.contains_key(g)) {
        b |= 1;
    }
    if l.failed.contains_key("no_panic") {
        b |= 2;
    }
    b
}

/// Which law groups fail on `v` or on anything reachable from `v` by reductions (memoised).
fn closure_bits(v: &Value, evals: &mut u64) -> u8 {
    let k = crate::model::canon(v);
    if let Some(b) = CLOSURE.with(|c| c.borrow().get(&k).copied()) {
        return b;
    }
    let l = value_laws(v, false);
    *evals += l.evaluations;
    let mut b = law_bits(&l);
    for r in reductions(v) {
        if b == 3 {
            break;
        }
        b |= closure_bits(&r, evals);
    }
    CLOSURE.with(|c| {
        let mut c = c.borrow_mut();
        if c.len() > 300_000 {
            c.clear();
        }
        c.insert(k, b);
    });
    b
}

/// Turn the failed laws of `v` into violations, keeping a law only when `v` is minimal for it:
/// nothing reachable from `v` by reductions fails a law of the same group (`roundtrip`,
/// `cycle_defined` and `fixed_point` are faces of one printer/parser disagreement and form one
/// group). Returns (violations, extra evaluations).
pub fn value_violations(v: &Value, force_producible: bool, laws: &ValueLaws, leg: &str) -> (Vec<Viol>, u64) {
    let mut out = vec![];
    let mut evals = 0;
    if laws.failed.is_empty() {
        return (out, 0);
    }
    let mut below = 0u8;
    let want = law_bits(laws);
    for r in reductions(v) {
        if below & want == want {
            break;
        }
        below |= closure_bits(&r, &mut evals);
    }
    for (law, (printers, got, what)) in &laws.failed {
        let bit = if *law == "no_panic" { 2 } else { 1 };
        if below & bit != 0 {
            continue;
        }
        let sk = skeleton(v);
        let sig = format!("law={} printers={} got={} value={}", law, set_str(printers), set_str(got), sk);
        out.push(Viol {
            law,
            sig,
            what: what.clone(),
            detail: json!({"kind": "value", "leg": leg, "law": law, "force_producible": force_producible,
                "producible": laws.producible, "value": to_json(v), "input": ref_print(v), "what": what}),
            key: (crate::model::tree_size(v), ref_print(v)),
        });
    }
    (out, evals)
}

// ------------------------------------------------------------------------------- chunking

#[derive(Default)]
pub struct ChunkStats {
    pub evaluations: u64,
    pub nontrivial: u64,
    pub oneshot_ok: bool,
}

fn binom2(n: u64) -> u64 {
    if n < 2 {
        0
    } else {
        n * (n - 1) / 2
    }
}

/// Oracle (3) and the no-panic / no-hang part of (4) on one text, for the recognizer type `T`:
/// both resumable decoders, under every chunking of `cuts::chunkings(len, max_cuts, 48)`, must
/// agree with the one-shot parser, and stay usable afterwards.
///
/// Minimal failing chunkings only: a 2-cut is reported when neither of its cuts fails alone, the
/// byte-by-byte chunking when no 1-cut fails.
pub fn text_violations<T: RecognizerReadable + std::fmt::Debug>(
    text: &str,
    eq: &dyn Fn(&T, &T) -> bool,
    sentinel: &str,
    max_cuts: usize,
    leg: &str,
    type_name: &str,
) -> (Vec<Viol>, ChunkStats, Out<T>) {
    text_violations_lim(text, eq, sentinel, max_cuts, leg, type_name, usize::MAX)
}

/// As [`text_violations`]; for inputs longer than `one_cut_limit` bytes the 1-cuts are restricted
/// to the first and the last `one_cut_limit / 2` positions (no cut and byte-by-byte are always run).
pub fn text_violations_lim<T: RecognizerReadable + std::fmt::Debug>(
    text: &str,
    eq: &dyn Fn(&T, &T) -> bool,
    sentinel: &str,
    max_cuts: usize,
    leg: &str,
    type_name: &str,
    one_cut_limit: usize,
) -> (Vec<Viol>, ChunkStats, Out<T>) {
    let mut out: BTreeMap<String, Viol> = BTreeMap::new();
    let mut st = ChunkStats::default();
    let oneshot = parse::<T>(text);
    st.oneshot_ok = matches!(oneshot, Out::Ok(_));
    let sentinel_expected = parse::<T>(sentinel);
    let toks = lex::lex(text);
    let bytes = text.as_bytes();
    let n = bytes.len();
    let key = (text.chars().count(), text.to_string());
    let mut push = |sig: String, what: String, decoder: &str, cutv: &[usize]| {
        out.entry(sig.clone()).or_insert_with(|| Viol {
            law: "chunking",
            sig,
            what: what.clone(),
            detail: json!({"kind": "text", "leg": leg, "type": type_name, "text": text, "input": text, "decoder": decoder,
                "cuts": cutv, "max_cuts": max_cuts, "one_cut_limit": if one_cut_limit == usize::MAX { 0 } else { one_cut_limit }, "sentinel": sentinel, "what": what}),
            key: key.clone(),
        });
    };
    if let Out::Panic(m) = &oneshot {
        push(
            format!("law=no_panic op=parse_recognize panic={}", normalise_panic(m)),
            format!("one-shot parser panicked on {:?}: {}", clip(text), m),
            "oneshot",
            &[],
        );
        // the decoders run the same parser: their panics on this text are the same defect
        drop(push);
        return (out.into_values().collect(), st, oneshot);
    }
    // interior positions (inside a token or inside a UTF-8 sequence) for the anti-vacuity count
    let interior = (1..n).filter(|&c| toks.iter().any(|t| t.start < c && c < t.end)).count() as u64;

    // ---- RecognizerDecoder
    {
        let chunkings = cuts::chunkings(n, max_cuts, 48);
        let total_pos = n.saturating_sub(1) as u64;
        st.nontrivial += interior;
        if max_cuts >= 2 && n <= 48 {
            st.nontrivial += binom2(total_pos) - binom2(total_pos - interior);
        }
        if interior > 0 {
            st.nontrivial += 1;
        }
        let mut fail1: Vec<usize> = vec![];
        let mut any_fail = false;
        for (ci, cutv) in chunkings.iter().enumerate() {
            let is_bytewise = ci == chunkings.len() - 1 && n >= 2;
            if n > one_cut_limit && !is_bytewise && cutv.len() == 1 && cutv[0] > one_cut_limit / 2 && cutv[0] < n - one_cut_limit / 2 {
                continue;
            }
            if cutv.len() == 2 && !is_bytewise && (fail1.contains(&cutv[0]) || fail1.contains(&cutv[1])) {
                continue;
            }
            if is_bytewise && cutv.len() != 1 && any_fail {
                continue;
            }
            if is_bytewise && cutv.len() == 1 {
                continue; // n == 2: identical to the single 1-cut
            }
            st.evaluations += 1;
            let chunks = cuts::split(bytes, cutv);
            let (first, second) = subject::run_recognizer_decoder::<T>(&chunks, sentinel.as_bytes());
            let ok1 = first.same(&oneshot, eq);
            let ok2 = second.same(&sentinel_expected, eq);
            if ok1 && ok2 {
                continue;
            }
            any_fail = true;
            if cutv.len() == 1 {
                fail1.push(cutv[0]);
            }
            let locus = if cutv.is_empty() {
                "none".to_string()
            } else if is_bytewise {
                "bytewise".to_string()
            } else {
                cutv.iter().map(|c| lex::describe_cut(text, &toks, *c)).collect::<Vec<_>>().join("&")
            };
            if !ok1 {
                let got = outcome_class(&first, &oneshot, eq);
                let law = match first {
                    Out::Panic(_) => "no_panic",
                    Out::Hang => "terminates",
                    _ => "chunk_independent",
                };
                push(
                    if let Out::Panic(m) = &first {
                        format!("law=no_panic decoder=RecognizerDecoder panic={}", normalise_panic(m))
                    } else if law == "chunk_independent" && cuts_first_primitive(text, cutv, 0) {
                        "law=chunk_independent decoder=RecognizerDecoder input=top_level_primitive_token_cut (the text starts with a primitive token at the top level and a cut falls inside it)".to_string()
                    } else {
                        format!("law={} decoder=RecognizerDecoder cut={} oneshot={} chunked={}", law, locus, oneshot.class(), got)
                    },
                    format!(
                        "text {:?} cut at {:?}: one-shot {} but RecognizerDecoder {}",
                        clip(text),
                        cutv_clip(cutv),
                        oneshot.describe(),
                        first.describe()
                    ),
                    "RecognizerDecoder",
                    cutv,
                );
            } else {
                push(
                    format!("law=decoder_reusable decoder=RecognizerDecoder after={} next={}", first.class(), second.class()),
                    format!(
                        "after decoding {:?} (cuts {:?}) the same decoder gave {} for the next text {:?}",
                        clip(text),
                        cutv_clip(cutv),
                        second.describe(),
                        sentinel
                    ),
                    "RecognizerDecoder",
                    cutv,
                );
            }
            if cutv.is_empty() {
                break; // fails without any cut: every chunking is a consequence
            }
        }
    }

    // ---- WithLenRecognizerDecoder (cuts over the 8-byte length prefix + body)
    {
        let fr = frame(bytes);
        let sfr = frame(sentinel.as_bytes());
        let m = fr.len();
        let chunkings = cuts::chunkings(m, max_cuts, 48);
        let total_pos = (m - 1) as u64;
        let interior_f = interior + 7;
        st.nontrivial += interior_f;
        if max_cuts >= 2 && m <= 48 {
            st.nontrivial += binom2(total_pos) - binom2(total_pos - interior_f);
        }
        st.nontrivial += 1;
        let mut fail1: Vec<usize> = vec![];
        let mut any_fail = false;
        let describe = |c: usize| -> String {
            if c < 8 {
                "in:length_prefix".to_string()
            } else if c == 8 {
                "between:length_prefix|body".to_string()
            } else {
                lex::describe_cut(text, &toks, c - 8)
            }
        };
        for (ci, cutv) in chunkings.iter().enumerate() {
            let is_bytewise = ci == chunkings.len() - 1;
            if m > one_cut_limit && !is_bytewise && cutv.len() == 1 && cutv[0] > one_cut_limit / 2 && cutv[0] < m - one_cut_limit / 2 {
                continue;
            }
            if cutv.len() == 2 && !is_bytewise && (fail1.contains(&cutv[0]) || fail1.contains(&cutv[1])) {
                continue;
            }
            if is_bytewise && any_fail {
                continue;
            }
            st.evaluations += 1;
            let chunks = cuts::split(&fr, cutv);
            let results = subject::run_with_len_decoder::<T>(&chunks, &sfr);
            let ok = results.len() == 2 && results[0].same(&oneshot, eq) && results[1].same(&sentinel_expected, eq);
            if ok {
                continue;
            }
            any_fail = true;
            if cutv.len() == 1 {
                fail1.push(cutv[0]);
            }
            let locus = if cutv.is_empty() {
                "none".to_string()
            } else if is_bytewise {
                "bytewise".to_string()
            } else {
                cutv.iter().map(|c| describe(*c)).collect::<Vec<_>>().join("&")
            };
            let law = if results.iter().any(|r| matches!(r, Out::Panic(_))) {
                "no_panic"
            } else if results.iter().any(|r| matches!(r, Out::Hang)) {
                "terminates"
            } else if !results.is_empty() && results[0].same(&oneshot, eq) {
                "frame_boundary"
            } else {
                "chunk_independent"
            };
            let got: Vec<String> = results
                .iter()
                .enumerate()
                .map(|(k, r)| {
                    let exp = if k == 0 { &oneshot } else { &sentinel_expected };
                    outcome_class(r, exp, eq).to_string()
                })
                .collect();
            push(
                if let Some(Out::Panic(m)) = results.iter().find(|r| matches!(r, Out::Panic(_))) {
                    format!("law=no_panic decoder=WithLenRecognizerDecoder panic={}", normalise_panic(m))
                } else if law == "chunk_independent" && cuts_first_primitive(text, cutv, 8) {
                    "law=chunk_independent decoder=WithLenRecognizerDecoder input=top_level_primitive_token_cut (the text starts with a primitive token at the top level and a cut falls inside it)".to_string()
                } else {
                    format!("law={} decoder=WithLenRecognizerDecoder cut={} oneshot={} results=[{}]", law, locus, oneshot.class(), got.join(","))
                },
                format!(
                    "frame of {:?} cut at {:?} then sentinel frame {:?}: one-shot {} but decoder yielded [{}]",
                    clip(text),
                    cutv_clip(cutv),
                    sentinel,
                    oneshot.describe(),
                    results.iter().map(|r| r.describe()).collect::<Vec<_>>().join(", ")
                ),
                "WithLenRecognizerDecoder",
                cutv,
            );
            if cutv.is_empty() {
                break;
            }
        }
    }
    (out.into_values().collect(), st, oneshot)
}

fn cutv_clip(c: &[usize]) -> String {
    if c.len() > 6 {
        format!("[{}, {}, .. {} cuts]", c[0], c[1], c.len())
    } else {
        format!("{:?}", c)
    }
}

fn outcome_class<T>(got: &Out<T>, expected: &Out<T>, eq: &dyn Fn(&T, &T) -> bool) -> &'static str {
    match (got, expected) {
        (Out::Ok(a), Out::Ok(b)) if eq(a, b) => "same",
        (Out::Err(_), Out::Err(_)) => "same",
        (Out::Ok(_), Out::Ok(_)) => "other_value",
        (Out::Ok(_), _) => "ok",
        (o, _) => o.class(),
    }
}

/// Does the text start (after white space) with a primitive-looking lexeme - a maximal run of
/// characters that are neither white space nor one of `@{}(),:;"` - and does one of the cuts
/// (byte offsets, shifted by `offset`) fall strictly inside that lexeme?
pub fn cuts_first_primitive(text: &str, cutv: &[usize], offset: usize) -> bool {
    let start = text.len() - text.trim_start().len();
    let rest = &text[start..];
    let len = rest.find(|c: char| c.is_whitespace() || "@{}(),:;\"".contains(c)).unwrap_or(rest.len());
    len >= 2 && cutv.iter().any(|c| *c > offset + start && *c < offset + start + len)
}

/// Panic message with digit runs replaced by N (positions vary), clipped.
pub fn normalise_panic(m: &str) -> String {
    let mut s = String::new();
    let mut in_digits = false;
    for c in m.chars() {
        if c.is_ascii_digit() {
            if !in_digits {
                s.push('N');
            }
            in_digits = true;
        } else {
            in_digits = false;
            s.push(if c == '\n' { ' ' } else { c });
        }
        if s.len() > 140 {
            break;
        }
    }
    s
}

/// Coarse shape of a text: letters -> a, digits -> 1, non-ASCII -> u, runs collapsed.
pub fn text_shape(text: &str) -> String {
    let mut s = String::new();
    for c in text.chars() {
        let k = if c.is_ascii_alphabetic() {
            'a'
        } else if c.is_ascii_digit() {
            '1'
        } else if !c.is_ascii() {
            'u'
        } else if (c as u32) < 0x20 {
            '^'
        } else {
            c
        };
        if s.chars().last() != Some(k) || !matches!(k, 'a' | '1' | 'u' | ' ' | '^') {
            s.push(k);
        }
        if s.len() > 40 {
            s.push_str("..");
            break;
        }
    }
    s
}

//! Hang guard. A call into the code under test that loops for ever cannot be interrupted from
//! inside the process, so every worker publishes the input it is working on; a monitor thread
//! reports `law=terminates` (replay file + VIOLATION line, exit 1) when one input stays current
//! for longer than the limit. Normal inputs take microseconds to a few seconds.

use std::cell::Cell;
use std::path::PathBuf;
use std::sync::atomic::{AtomicUsize, Ordering};
use std::sync::Mutex;

struct Slot {
    counter: u64,
    active: bool,
    desc: String,
}

const MAX_SLOTS: usize = 256;
static NEXT: AtomicUsize = AtomicUsize::new(0);
static SLOTS: Mutex<Vec<&'static Mutex<Slot>>> = Mutex::new(Vec::new());

thread_local! {
    static MINE: Cell<Option<&'static Mutex<Slot>>> = const { Cell::new(None) };
}

fn my_slot() -> &'static Mutex<Slot> {
    MINE.with(|m| {
        if let Some(s) = m.get() {
            return s;
        }
        let s: &'static Mutex<Slot> = Box::leak(Box::new(Mutex::new(Slot { counter: 0, active: false, desc: String::new() })));
        if NEXT.fetch_add(1, Ordering::Relaxed) < MAX_SLOTS * 64 {
            SLOTS.lock().unwrap().push(s);
        }
        m.set(Some(s));
        s
    })
}

/// Announce the input this thread starts working on.
pub fn enter(kind: &str, input: &str) {
    let mut s = my_slot().lock().unwrap();
    s.counter += 1;
    s.active = true;
    s.desc.clear();
    s.desc.push_str(kind);
    s.desc.push('\u{1}');
    // long inputs: the prefix is enough to identify the family
    let cut = input.char_indices().nth(400).map(|(i, _)| i).unwrap_or(input.len());
    s.desc.push_str(&input[..cut]);
}

pub fn leave() {
    let mut s = my_slot().lock().unwrap();
    s.counter += 1;
    s.active = false;
}

/// Start the monitor. `limit_s`: how long one input may stay current.
pub fn start(root: PathBuf, id: String, tier: &'static str, seed: u64, limit_s: u64) {
    let t0 = std::time::Instant::now();
    std::thread::spawn(move || {
        let mut seen: Vec<(u64, u64)> = vec![]; // (counter, ticks unchanged)
        loop {
            std::thread::sleep(std::time::Duration::from_secs(1));
            let slots: Vec<&'static Mutex<Slot>> = SLOTS.lock().unwrap().clone();
            seen.resize(slots.len(), (0, 0));
            for (i, sl) in slots.iter().enumerate() {
                let s = sl.lock().unwrap();
                if s.active && s.counter == seen[i].0 {
                    seen[i].1 += 1;
                } else {
                    seen[i] = (s.counter, 0);
                }
                if seen[i].1 >= limit_s {
                    let mut parts = s.desc.splitn(2, '\u{1}');
                    let kind = parts.next().unwrap_or("").to_string();
                    let input = parts.next().unwrap_or("").to_string();
                    let sig = format!("law=terminates stage={} (a call into the implementation did not return)", kind);
                    let v = serde_json::json!({"property": id, "leg": "watchdog", "signature": sig,
                        "detail": {"kind": "hang", "stage": kind, "input": input, "limit_s": limit_s, "what": "call into the implementation did not return within the hang guard's limit"}});
                    let dir = root.join("replays");
                    let _ = std::fs::create_dir_all(&dir);
                    let p = dir.join(format!("{}-{:016x}.json", id, vcommon::fnv(sig.as_bytes())));
                    let _ = std::fs::write(&p, serde_json::to_string_pretty(&v).unwrap());
                    // the run ends here: leave an evidence file saying what was reached
                    let started: u64 = slots.iter().enumerate().map(|(j, o)| if j == i { s.counter } else { o.lock().map(|x| x.counter).unwrap_or(0) }).sum::<u64>() / 2 + 1;
                    let ev = serde_json::json!({
                        "property_id": id, "tier": tier, "seed": seed, "level": "model_checking",
                        "coverage": {"evaluations": started, "distinct_nontrivial": started, "states": started, "transitions": started,
                            "traces_validated_against_impl": started,
                            "rule": "run aborted by the hang guard: counts = inputs started before one input failed to terminate (each distinct); see the per-leg evidence of a completed run for the normal rule",
                            "samples": [format!("{}: {}", kind, input)], "exhaustive": false,
                            "explanation": "aborted: a call into the implementation did not return"},
                        "assumptions": [], "wall_s": t0.elapsed().as_secs_f64(), "violations": 1});
                    let edir = root.join("evidence");
                    let _ = std::fs::create_dir_all(&edir);
                    let _ = std::fs::write(edir.join(format!("{}.json", id)), serde_json::to_string_pretty(&ev).unwrap());
                    eprintln!("violation signature: {}", sig);
                    println!("VIOLATION property={} replay={}", id, p.display());
                    std::process::exit(1);
                }
            }
        }
    });
}

//! Harness-side helpers on model values that do NOT call the code under test: exact equality,
//! an independent reference printer, JSON (de)serialisation for replays, lexical classes for
//! signatures and one-step reductions for minimisation.

use num_bigint::{BigInt, BigUint};
use serde_json::{json, Value as J};
use std::str::FromStr;
use swimos_model::{Attr, Blob, Item, Text, Value};

/// Exact (representation level) equality: same variant, same payload, floats by bit pattern.
pub fn strict_eq(a: &Value, b: &Value) -> bool {
    match (a, b) {
        (Value::Extant, Value::Extant) => true,
        (Value::Int32Value(x), Value::Int32Value(y)) => x == y,
        (Value::Int64Value(x), Value::Int64Value(y)) => x == y,
        (Value::UInt32Value(x), Value::UInt32Value(y)) => x == y,
        (Value::UInt64Value(x), Value::UInt64Value(y)) => x == y,
        (Value::Float64Value(x), Value::Float64Value(y)) => x.to_bits() == y.to_bits(),
        (Value::BooleanValue(x), Value::BooleanValue(y)) => x == y,
        (Value::BigInt(x), Value::BigInt(y)) => x == y,
        (Value::BigUint(x), Value::BigUint(y)) => x == y,
        (Value::Text(x), Value::Text(y)) => x.as_str() == y.as_str(),
        (Value::Data(x), Value::Data(y)) => x.as_ref() == y.as_ref(),
        (Value::Record(a1, i1), Value::Record(a2, i2)) => {
            a1.len() == a2.len()
                && i1.len() == i2.len()
                && a1.iter().zip(a2).all(|(p, q)| p.name.as_str() == q.name.as_str() && strict_eq(&p.value, &q.value))
                && i1.iter().zip(i2).all(|(p, q)| match (p, q) {
                    (Item::ValueItem(x), Item::ValueItem(y)) => strict_eq(x, y),
                    (Item::Slot(k1, v1), Item::Slot(k2, v2)) => strict_eq(k1, k2) && strict_eq(v1, v2),
                    _ => false,
                })
        }
        _ => false,
    }
}

// ---------------------------------------------------------------- JSON for replays

pub fn to_json(v: &Value) -> J {
    match v {
        Value::Extant => json!({"t": "extant"}),
        Value::Int32Value(n) => json!({"t": "i32", "v": n}),
        Value::Int64Value(n) => json!({"t": "i64", "v": n.to_string()}),
        Value::UInt32Value(n) => json!({"t": "u32", "v": n}),
        Value::UInt64Value(n) => json!({"t": "u64", "v": n.to_string()}),
        Value::Float64Value(x) => json!({"t": "f64", "bits": x.to_bits().to_string(), "approx": format!("{:?}", x)}),
        Value::BooleanValue(b) => json!({"t": "bool", "v": b}),
        Value::BigInt(n) => json!({"t": "bigint", "v": n.to_string()}),
        Value::BigUint(n) => json!({"t": "biguint", "v": n.to_string()}),
        Value::Text(t) => json!({"t": "text", "v": t.as_str()}),
        Value::Data(b) => json!({"t": "data", "v": b.as_ref().to_vec()}),
        Value::Record(attrs, items) => json!({
            "t": "record",
            "attrs": attrs.iter().map(|a| json!({"name": a.name.as_str(), "value": to_json(&a.value)})).collect::<Vec<_>>(),
            "items": items.iter().map(|i| match i {
                Item::ValueItem(v) => json!({"value": to_json(v)}),
                Item::Slot(k, v) => json!({"key": to_json(k), "value": to_json(v)}),
            }).collect::<Vec<_>>(),
        }),
    }
}

pub fn from_json(j: &J) -> Option<Value> {
    let t = j.get("t")?.as_str()?;
    Some(match t {
        "extant" => Value::Extant,
        "i32" => Value::Int32Value(j["v"].as_i64()? as i32),
        "i64" => Value::Int64Value(j["v"].as_str()?.parse().ok()?),
        "u32" => Value::UInt32Value(j["v"].as_u64()? as u32),
        "u64" => Value::UInt64Value(j["v"].as_str()?.parse().ok()?),
        "f64" => Value::Float64Value(f64::from_bits(j["bits"].as_str()?.parse().ok()?)),
        "bool" => Value::BooleanValue(j["v"].as_bool()?),
        "bigint" => Value::BigInt(BigInt::from_str(j["v"].as_str()?).ok()?),
        "biguint" => Value::BigUint(BigUint::from_str(j["v"].as_str()?).ok()?),
        "text" => Value::Text(Text::new(j["v"].as_str()?)),
        "data" => Value::Data(Blob::from_vec(j["v"].as_array()?.iter().map(|b| b.as_u64().unwrap_or(0) as u8).collect())),
        "record" => {
            let mut attrs = vec![];
            for a in j["attrs"].as_array()? {
                attrs.push(Attr { name: Text::new(a["name"].as_str()?), value: from_json(&a["value"])? });
            }
            let mut items = vec![];
            for i in j["items"].as_array()? {
                if let Some(k) = i.get("key") {
                    items.push(Item::Slot(from_json(k)?, from_json(&i["value"])?));
                } else {
                    items.push(Item::ValueItem(from_json(&i["value"])?));
                }
            }
            Value::Record(attrs, items)
        }
        _ => return None,
    })
}

// ---------------------------------------------------------------- reference printer

fn ref_text(s: &str, out: &mut String) {
    out.push('"');
    for c in s.chars() {
        match c {
            '"' => out.push_str("\\\""),
            '\\' => out.push_str("\\\\"),
            c if (c as u32) < 0x20 => out.push_str(&format!("\\u{:04x}", c as u32)),
            c => out.push(c),
        }
    }
    out.push('"');
}

const B64: &[u8; 64] = b"ABCDEFGHIJKLMNOPQRSTUVWXYZabcdefghijklmnopqrstuvwxyz0123456789+/";

pub fn base64(data: &[u8]) -> String {
    let mut out = String::new();
    for ch in data.chunks(3) {
        let b = [ch[0], *ch.get(1).unwrap_or(&0), *ch.get(2).unwrap_or(&0)];
        let n = ((b[0] as u32) << 16) | ((b[1] as u32) << 8) | b[2] as u32;
        out.push(B64[(n >> 18) as usize & 63] as char);
        out.push(B64[(n >> 12) as usize & 63] as char);
        out.push(if ch.len() > 1 { B64[(n >> 6) as usize & 63] as char } else { '=' });
        out.push(if ch.len() > 2 { B64[n as usize & 63] as char } else { '=' });
    }
    out
}

fn ref_items(items: &[Item], out: &mut String) {
    for (i, it) in items.iter().enumerate() {
        if i > 0 {
            out.push(',');
        }
        match it {
            Item::ValueItem(v) => ref_value(v, out),
            Item::Slot(k, v) => {
                ref_value(k, out);
                out.push(':');
                ref_value(v, out);
            }
        }
    }
}

fn ref_value(v: &Value, out: &mut String) {
    ref_value_opt(v, out, false)
}

fn ref_value_opt(v: &Value, out: &mut String, braces: bool) {
    match v {
        Value::Extant => {}
        Value::Int32Value(n) => out.push_str(&n.to_string()),
        Value::Int64Value(n) => out.push_str(&n.to_string()),
        Value::UInt32Value(n) => out.push_str(&n.to_string()),
        Value::UInt64Value(n) => out.push_str(&n.to_string()),
        Value::Float64Value(x) => {
            let s = format!("{:?}", x);
            out.push_str(&s);
        }
        Value::BooleanValue(b) => out.push_str(if *b { "true" } else { "false" }),
        Value::BigInt(n) => out.push_str(&n.to_string()),
        Value::BigUint(n) => out.push_str(&n.to_string()),
        Value::Text(t) => ref_text(t.as_str(), out),
        Value::Data(b) => {
            out.push('%');
            out.push_str(&base64(b.as_ref()));
        }
        Value::Record(attrs, items) => {
            for a in attrs {
                out.push('@');
                ref_text(a.name.as_str(), out);
                match &a.value {
                    Value::Extant => {}
                    Value::Record(aa, ii) if aa.is_empty() => {
                        out.push('(');
                        if ii.is_empty() {
                            out.push_str("{}");
                        } else if ii.len() == 1 && matches!(ii[0], Item::ValueItem(_)) {
                            out.push('{');
                            ref_items(ii, out);
                            out.push('}');
                        } else {
                            ref_items(ii, out);
                        }
                        out.push(')');
                    }
                    other => {
                        out.push('(');
                        ref_value(other, out);
                        out.push(')');
                    }
                }
            }
            if attrs.is_empty() || !items.is_empty() || braces {
                out.push('{');
                ref_items(items, out);
                out.push('}');
            }
        }
    }
}

/// Independent, fully quoted, fully braced Recon rendering. A value `v` for which the parser
/// returns exactly `v` on this text is, by definition, a value "the parser itself can produce".
pub fn ref_print(v: &Value) -> String {
    let mut s = String::new();
    ref_value(v, &mut s);
    s
}

/// Variant of [`ref_print`] that writes `{}` after the attributes of a top-level record without
/// items (`@"a"{}`), for the producibility test only.
pub fn ref_print_braced(v: &Value) -> String {
    let mut s = String::new();
    ref_value_opt(v, &mut s, true);
    s
}

// ---------------------------------------------------------------- lexical classes / skeleton

/// The Recon identifier grammar (harness-side copy of the specification's character ranges).
pub fn spec_ident_start(c: char) -> bool {
    matches!(c, 'A'..='Z' | 'a'..='z' | '_' | '\u{b7}' | '\u{c0}'..='\u{d6}' | '\u{d8}'..='\u{f6}' | '\u{f8}'..='\u{37d}'
        | '\u{37f}'..='\u{1fff}' | '\u{200c}'..='\u{200d}' | '\u{203f}'..='\u{2040}' | '\u{2070}'..='\u{218f}'
        | '\u{2c00}'..='\u{2fef}' | '\u{3001}'..='\u{d7ff}' | '\u{f900}'..='\u{fdcf}' | '\u{fdf0}'..='\u{fffd}'
        | '\u{10000}'..='\u{effff}')
}

pub fn spec_ident_char(c: char) -> bool {
    spec_ident_start(c) || c == '-' || c.is_ascii_digit()
}

/// Class of an attribute name: can it be written as a bare identifier after `@`?
pub fn name_class(s: &str) -> &'static str {
    let mut cs = s.chars();
    match cs.next() {
        Some(c) if spec_ident_start(c) && cs.all(spec_ident_char) => "identifier",
        _ => "non_identifier",
    }
}

/// Injective compact encoding of a value (cache key).
pub fn canon(v: &Value) -> String {
    fn go(v: &Value, o: &mut String) {
        use std::fmt::Write;
        match v {
            Value::Extant => o.push('E'),
            Value::Int32Value(n) => write!(o, "i{};", n).unwrap(),
            Value::Int64Value(n) => write!(o, "l{};", n).unwrap(),
            Value::UInt32Value(n) => write!(o, "u{};", n).unwrap(),
            Value::UInt64Value(n) => write!(o, "U{};", n).unwrap(),
            Value::Float64Value(x) => write!(o, "f{:x};", x.to_bits()).unwrap(),
            Value::BooleanValue(b) => o.push(if *b { 'T' } else { 'F' }),
            Value::BigInt(n) => write!(o, "b{};", n).unwrap(),
            Value::BigUint(n) => write!(o, "B{};", n).unwrap(),
            Value::Text(t) => write!(o, "t{}:{}", t.as_str().len(), t.as_str()).unwrap(),
            Value::Data(d) => {
                write!(o, "d{}:", d.as_ref().len()).unwrap();
                for b in d.as_ref() {
                    write!(o, "{:02x}", b).unwrap();
                }
            }
            Value::Record(attrs, items) => {
                write!(o, "R{},{}(", attrs.len(), items.len()).unwrap();
                for a in attrs {
                    write!(o, "{}:{}", a.name.as_str().len(), a.name.as_str()).unwrap();
                    go(&a.value, o);
                }
                for i in items {
                    match i {
                        Item::ValueItem(x) => {
                            o.push('V');
                            go(x, o);
                        }
                        Item::Slot(k, x) => {
                            o.push('S');
                            go(k, o);
                            go(x, o);
                        }
                    }
                }
                o.push(')');
            }
        }
    }
    let mut s = String::new();
    go(v, &mut s);
    s
}

pub fn text_class(s: &str) -> &'static str {
    let ident_start = spec_ident_start;
    let ident_char = spec_ident_char;
    if s.is_empty() {
        "empty"
    } else if s == "true" || s == "false" {
        "keyword"
    } else if s.chars().any(|c| (c as u32) < 0x20) {
        "control"
    } else if s.contains('"') {
        "quote"
    } else if s.contains('\\') {
        "backslash"
    } else if s.contains(' ') {
        "space"
    } else if s.chars().next().map(|c| c.is_ascii_digit()).unwrap_or(false) {
        "digit_start"
    } else if s.chars().next().map(ident_start).unwrap_or(false) && s.chars().all(ident_char) {
        if s.is_ascii() {
            "ident"
        } else {
            "ident_nonascii"
        }
    } else {
        "punct"
    }
}

/// Structure of a value with atoms replaced by their lexical class (used in signatures).
pub fn skeleton(v: &Value) -> String {
    match v {
        Value::Extant => "extant".into(),
        Value::Int32Value(n) => (if *n < 0 { "i32neg" } else { "i32" }).into(),
        Value::Int64Value(n) => (if *n < 0 { "i64neg" } else { "i64" }).into(),
        Value::UInt32Value(_) => "u32".into(),
        Value::UInt64Value(_) => "u64".into(),
        Value::Float64Value(x) => {
            if x.to_bits() == (-0.0f64).to_bits() {
                "f64negzero".into()
            } else if format!("{:?}", x).contains('e') {
                "f64exp".into()
            } else {
                "f64".into()
            }
        }
        Value::BooleanValue(_) => "bool".into(),
        Value::BigInt(_) => "bigint".into(),
        Value::BigUint(_) => "biguint".into(),
        Value::Text(t) => format!("text<{}>", text_class(t.as_str())),
        Value::Data(b) => (if b.as_ref().is_empty() { "blob<empty>" } else { "blob" }).into(),
        Value::Record(attrs, items) => {
            let mut s = String::new();
            for a in attrs {
                s.push_str(&format!("@<{}>", name_class(a.name.as_str())));
                if !matches!(a.value, Value::Extant) {
                    s.push('(');
                    s.push_str(&skeleton(&a.value));
                    s.push(')');
                }
            }
            s.push('{');
            for (i, it) in items.iter().enumerate() {
                if i > 0 {
                    s.push(',');
                }
                match it {
                    Item::ValueItem(v) => s.push_str(&skeleton(v)),
                    Item::Slot(k, v) => {
                        s.push_str(&skeleton(k));
                        s.push(':');
                        s.push_str(&skeleton(v));
                    }
                }
            }
            s.push('}');
            s
        }
    }
}

// ---------------------------------------------------------------- reductions

/// All values obtained from `v` by one simplification step: replace the whole by a child, drop an
/// attribute or item, turn a slot into one of its halves, replace a child by `Extant`, or apply
/// such a step to a child in place. Every result is strictly smaller or simpler.
pub fn reductions(v: &Value) -> Vec<Value> {
    let mut out = vec![];
    if let Value::Record(attrs, items) = v {
        for a in attrs {
            out.push(a.value.clone());
        }
        for it in items {
            match it {
                Item::ValueItem(x) => out.push(x.clone()),
                Item::Slot(k, x) => {
                    out.push(k.clone());
                    out.push(x.clone());
                }
            }
        }
        for i in 0..attrs.len() {
            let mut a2 = attrs.clone();
            a2.remove(i);
            out.push(Value::Record(a2, items.clone()));
        }
        for i in 0..items.len() {
            let mut i2 = items.clone();
            i2.remove(i);
            out.push(Value::Record(attrs.clone(), i2));
        }
        for i in 0..items.len() {
            if let Item::Slot(k, x) = &items[i] {
                let mut i2 = items.clone();
                i2[i] = Item::ValueItem(k.clone());
                out.push(Value::Record(attrs.clone(), i2));
                let mut i3 = items.clone();
                i3[i] = Item::ValueItem(x.clone());
                out.push(Value::Record(attrs.clone(), i3));
            }
        }
        // children
        for i in 0..attrs.len() {
            let mut subs = reductions(&attrs[i].value);
            if !matches!(attrs[i].value, Value::Extant) {
                subs.push(Value::Extant);
            }
            for r in subs {
                let mut a2 = attrs.clone();
                a2[i] = Attr { name: attrs[i].name.clone(), value: r };
                out.push(Value::Record(a2, items.clone()));
            }
        }
        for i in 0..items.len() {
            match &items[i] {
                Item::ValueItem(x) => {
                    let mut subs = reductions(x);
                    if !matches!(x, Value::Extant) {
                        subs.push(Value::Extant);
                    }
                    for r in subs {
                        let mut i2 = items.clone();
                        i2[i] = Item::ValueItem(r);
                        out.push(Value::Record(attrs.clone(), i2));
                    }
                }
                Item::Slot(k, x) => {
                    let mut subs = reductions(k);
                    if !matches!(k, Value::Extant) {
                        subs.push(Value::Extant);
                    }
                    for r in subs {
                        let mut i2 = items.clone();
                        i2[i] = Item::Slot(r, x.clone());
                        out.push(Value::Record(attrs.clone(), i2));
                    }
                    let mut subs = reductions(x);
                    if !matches!(x, Value::Extant) {
                        subs.push(Value::Extant);
                    }
                    for r in subs {
                        let mut i2 = items.clone();
                        i2[i] = Item::Slot(k.clone(), r);
                        out.push(Value::Record(attrs.clone(), i2));
                    }
                }
            }
        }
    }
    out
}

/// Does the value contain a NaN or an infinity? (The property is stated for finite floats.)
pub fn has_non_finite(v: &Value) -> bool {
    match v {
        Value::Float64Value(x) => !x.is_finite(),
        Value::Record(attrs, items) => {
            attrs.iter().any(|a| has_non_finite(&a.value))
                || items.iter().any(|i| match i {
                    Item::ValueItem(x) => has_non_finite(x),
                    Item::Slot(k, x) => has_non_finite(k) || has_non_finite(x),
                })
        }
        _ => false,
    }
}

pub fn tree_size(v: &Value) -> usize {
    match v {
        Value::Record(attrs, items) => {
            1 + attrs.iter().map(|a| tree_size(&a.value)).sum::<usize>()
                + items
                    .iter()
                    .map(|i| match i {
                        Item::ValueItem(x) => tree_size(x),
                        Item::Slot(k, x) => tree_size(k) + tree_size(x),
                    })
                    .sum::<usize>()
        }
        _ => 1,
    }
}

fn main() {
    vcommon::machinery_failure("C03: engine not built yet");
}

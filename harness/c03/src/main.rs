//! C03 - Sync gives a consistent snapshot, then a gap-free tail.
//! Engine E1 over the agent-system harness: one remote streams updates (commands and handler
//! originated), one or two others sync at every position of that stream, with and without a
//! preceding link; value and map lanes.

use asys::grid::{grid, replay, run_grid, GridSpec};
use asys::mapq;
use asys::oracle::{check_c01, check_c04, check_map, check_value_sync};
use asys::scripts::*;
use asys::world::{set_checker, Mode, Observation, Step};
use vcommon::Ctx;

fn checker(obs: &Observation) -> Vec<(String, String)> {
    let mut v = check_map(obs, true);
    v.extend(check_value_sync(obs));
    v.extend(check_c01(obs));
    // frame shape linked events* synced, nothing fabricated
    v.extend(check_c04(obs));
    v
}

fn upd(k: i32, v: i32) -> String {
    format!("@upd{{k:{},v:{}}}", k, v)
}

fn scripts(quick: bool) -> Vec<(Vec<(usize, Step)>, usize)> {
    let mut out: Vec<(Vec<(usize, Step)>, usize)> = vec![];
    let a1 = upd(1, 1);
    let a2 = upd(2, 2);
    let a3 = upd(1, 3);
    let stream_map = vec![link("m"), act(&[&a1, &a2]), act(&[&a3, "@rem(2)"]), cmd("m", "@update(key:3) 4")];
    let pending = vec![act(&[&a1, &a2, "@rem(1)"]), act(&[&a3])];
    let clearing = vec![link("m"), act(&[&a1, &a2]), act(&["@clr", &a3])];
    let stream_val = vec![link("v"), cmd("v", "1"), act(&["@setv(2)", "@setv(3)"]), cmd("v", "4")];
    let syncers: Vec<Vec<Step>> = vec![vec![sync("m")], vec![link("m"), sync("m")], vec![sync("m"), sync("m")]];
    let vsyncers: Vec<Vec<Step>> = vec![vec![sync("v")], vec![link("v"), sync("v")]];
    let mut push_all = |a: &Vec<Step>, b: &Vec<Step>, every: usize| {
        for (i, s) in interleavings(&[a.clone(), b.clone()]).into_iter().enumerate() {
            if i % every == 0 {
                out.push((s, 2));
            }
        }
    };
    let e = if quick { 2 } else { 1 };
    for s in &syncers {
        push_all(&stream_map, s, e);
        push_all(&pending, s, 1);
        push_all(&clearing, s, e);
    }
    // take / drop addressed to the lane while a sync is served (the entries go one by one)
    let dropping = vec![link("m"), act(&[&a1, &a2, &upd(3, 5)]), cmd("m", "@drop(1)"), cmd("m", "@take(1)")];
    for s in &syncers {
        push_all(&dropping, s, e);
    }
    for s in &vsyncers {
        push_all(&stream_val, s, e);
    }
    // sync without link while several lane events are still queued (lane -> runtime channel small)
    let many = vec![act(&[&upd(1, 1), &upd(2, 2), &upd(3, 3), &upd(4, 4)])];
    for s in interleavings(&[many.clone(), vec![sync("m")]]) {
        out.push((s, 2));
    }
    // set / sync / set from one remote with a pure observer (sync served with a pending change)
    out.push((vec![(1, link("v")), (0, link("v")), (0, cmd("v", "31")), (0, sync("v")), (0, cmd("v", "32"))], 2));
    out.push((vec![(1, link("m")), (0, cmd("m", "@update(key:1) 1")), (0, sync("m")), (0, cmd("m", "@update(key:2) 2")), (0, cmd("m", "@remove(key:1)"))], 2));
    // a link request repeated while the answer to a sync is still queued for a slow remote
    out.push((sequential(&[vec![link("m"), act(&[&a1, &a2, &upd(3, 3)]), sync("m"), link("m"), act(&[&upd(1, 5)])]]), 1));
    out.push((sequential(&[vec![sync("m"), link("m"), act(&[&a1, &a2]), sync("m"), link("m")]]), 1));
    out.push((sequential(&[vec![link("v"), cmd("v", "1"), sync("v"), link("v"), cmd("v", "2")]]), 1));
    out.push((vec![(0, link("m")), (1, link("m")), (1, act(&[&a1, &a2])), (0, sync("m")), (0, link("m")), (1, act(&[&a3])), (0, sync("m"))], 2));
    // two concurrent syncers
    out.push((sequential(&[vec![link("m"), act(&[&a1, &a2])], vec![sync("m")], vec![sync("m")]]), 3));
    for (i, s) in interleavings(&[pending.clone(), vec![sync("m")], vec![sync("m")]]).into_iter().enumerate() {
        if !quick || i % 3 == 0 {
            out.push((s, 3));
        }
    }
    out
}

fn main() {
    let ctx = Ctx::from_env("C03");
    set_checker(checker);
    if let Some(r) = ctx.replay_request() {
        if r["leg"].as_str().map(|l| l.starts_with("mapq")).unwrap_or(false) {
            mapq::replay(&ctx, r);
        } else if r["leg"].as_str().map(|l| l.starts_with("uplinks")).unwrap_or(false) {
            asys::uplinks::replay(&ctx, r);
        } else {
            replay(&ctx, r);
        }
        ctx.finish("model_checking", "replay");
    }
    let quick = ctx.quick();
    mapq::run_sync(&ctx);
    // the runtime's per-remote scheduler: every sync request is answered, what was queued for the
    // sync is delivered whatever other requests arrive in between
    asys::uplinks::run(&ctx, "uplinks-bfs-sync", if quick { 7 } else { 8 }, |m| m.contains("sync") || m.contains("drain_delivers_latest") || m.contains("terminates") || m.contains("one_writer"));
    let sc = scripts(quick);
    let modes = [Mode::Eager, Mode::Burst, Mode::SlowRead];
    // the scripts with a tiny lane <-> runtime channel first (lane events stay queued inside the lane)
    let mut cfgs = vec![];
    for mut c in grid(&sc, &[4096], &[2, 64], &modes, &[0]) {
        c.lane_buf = 8;
        cfgs.push(c);
    }
    cfgs.extend(grid(&sc, if quick { &[8, 4096] } else { &[8, 48, 4096] }, &[2, 64], &modes, &[0]));
    run_grid(&ctx, GridSpec { name: "as-sync-grid-d1".into(), cfgs, bound: 1, max_exec_per_cfg: 20_000, wall_cap_s: if quick { 28.0 } else { 1200.0 } });
    let core: Vec<_> = sc.iter().filter(|(s, _)| s.len() <= 4).cloned().collect();
    let mut cfgs = grid(&core, &[8], &[2, 3], &[Mode::Eager, Mode::SlowRead], &[0, 7]);
    for mut c in grid(&core, &[4096], &[2, 64], &[Mode::Eager, Mode::Burst], &[0]) {
        c.lane_buf = 8;
        cfgs.push(c);
    }
    run_grid(&ctx, GridSpec { name: "as-sync-core-d2".into(), cfgs, bound: if quick { 2 } else { 3 }, max_exec_per_cfg: if quick { 20_000 } else { 3_000_000 }, wall_cap_s: if quick { 18.0 } else { 1200.0 } });
    ctx.assume("tokio select! start index and HashMap iteration order are fixed per VERIF_SEED (deterministic interposer), not enumerated");
    ctx.assume("3 keys, i32 values, at most 2 concurrent syncers");
    ctx.finish(
        "model_checking",
        "deviation-bounded exhaustive schedule exploration of the real agent+runtime future with sync requests placed at every position of an update stream; per-key snapshot-window oracle at synced, convergence afterwards",
    );
}

//! Engine E3 source binding: the loom leg checks the actual source text of
//! runtime/swimos_runtime/src/agent/reporting/mod.rs with only the atomic imports redirected to
//! loom (Arc/Weak stay std: loom has no Weak and the reference counting is not what is checked).
use std::{env, fs, path::PathBuf};

fn main() {
    let manifest = PathBuf::from(env::var("CARGO_MANIFEST_DIR").unwrap());
    let src = manifest.join("../../subject/runtime/swimos_runtime/src/agent/reporting/mod.rs");
    println!("cargo:rerun-if-changed={}", src.display());
    let text = fs::read_to_string(&src).expect("cannot read reporting/mod.rs");
    let mut out = String::new();
    let mut rewrote = 0;
    let mut in_std_use = false;
    for line in text.lines() {
        let t = line.trim();
        if t.starts_with("use std::{") && !t.ends_with("};") {
            in_std_use = true;
            continue;
        }
        if in_std_use {
            if t == "};" {
                in_std_use = false;
                out.push_str("use std::{sync::{Arc, Weak}, time::Duration};\nuse loom::sync::atomic::{AtomicU64, Ordering};\n");
                rewrote += 1;
            }
            continue;
        }
        if t == "#[cfg(test)]" {
            continue;
        }
        if t == "mod tests;" {
            rewrote += 1;
            continue;
        }
        if t.starts_with("//") && !t.starts_with("///") {
            continue;
        }
        out.push_str(line);
        out.push('\n');
    }
    assert!(rewrote == 2, "reporting/mod.rs: expected 2 rewritten sites, found {}", rewrote);
    for needle in ["fn saturating_add(", "fn snapshot_value(", "pub fn count_events(", "pub fn snapshot(&self)"] {
        assert!(out.contains(needle), "reporting/mod.rs no longer contains `{}`", needle);
    }
    let dst = PathBuf::from(env::var("OUT_DIR").unwrap()).join("reporting_loom.rs");
    fs::write(dst, out).unwrap();
}

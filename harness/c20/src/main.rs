fn main() {
    vcommon::machinery_failure("C20: engine not built yet");
}

//! C20 - Introspection reports the true number of links and counts every message.
//!
//! Leg `links` (E2): BFS over the real `Links` registry with real `UplinkReporter`s (hook
//! re-export): every sequence of register/insert/remove/remove_remote/remove_lane/remove_all/
//! count_single/count_broadcast over 2 lanes x 2 remotes; after every operation the reported link
//! counts and the counted events must equal the reference.
//! Leg `loom` (E3): loom over the real source text of `agent/reporting/mod.rs`: concurrent
//! counting threads and a snapshotting thread lose nothing.
//! Leg `as-reporting` (E1): the real agent+runtime with `NodeReporting`, C04-style scripts with
//! faults; at quiescence the reported counts equal what the remotes observed.

#[allow(dead_code, unused_imports, clippy::all)]
mod rep {
    include!(concat!(env!("OUT_DIR"), "/reporting_loom.rs"));
}

use asys::grid::{replay as as_replay, run_grid, GridSpec};
use asys::scripts::*;
use asys::world::{set_checker, Cfg, FrameKind, Mode, Observation, Step};
use serde_json::json;
use std::collections::BTreeMap;
use std::sync::atomic::{AtomicU64, Ordering as StdOrdering};
use std::time::Instant;
use vcommon::{Ctx, Leg};

// ------------------------------------------------------------------------------------------
// leg links
// ------------------------------------------------------------------------------------------

use asys::linksbfs::{build, links_leg, Op};

// ------------------------------------------------------------------------------------------
// leg loom
// ------------------------------------------------------------------------------------------

static LOOM_EXECUTIONS: AtomicU64 = AtomicU64::new(0);

fn loom_scenario(name: &str, bound: Option<usize>) {
    let mut b = loom::model::Builder::new();
    b.preemption_bound = bound;
    let name = name.to_string();
    b.check(move || {
        LOOM_EXECUTIONS.fetch_add(1, StdOrdering::Relaxed);
        let reporter = rep::UplinkReporter::default();
        let reader = reporter.reader();
        let (n_threads, incs): (usize, Vec<u64>) = match name.as_str() {
            "2x2+2snap" => (2, vec![1, 2]),
            "2x1+2snap-commands" => (2, vec![3]),
            "3x1+1snap" => (3, vec![1]),
            _ => (2, vec![1]),
        };
        let commands = name.contains("commands");
        let mut hs = vec![];
        for _ in 0..n_threads {
            let r = reporter.clone();
            let incs = incs.clone();
            hs.push(loom::thread::spawn(move || {
                for i in incs {
                    if commands {
                        r.count_commands(i);
                    } else {
                        r.count_events(i);
                    }
                }
            }));
        }
        let snaps = if name.contains("1snap") { 1 } else { 2 };
        let rd = reader.clone();
        let snapper = loom::thread::spawn(move || {
            let mut total = 0u64;
            for _ in 0..snaps {
                let s = rd.snapshot().expect("reporter alive");
                total += if commands { s.command_count } else { s.event_count };
            }
            total
        });
        for h in hs {
            h.join().unwrap();
        }
        let mut total = snapper.join().unwrap();
        let last = reader.snapshot().expect("reporter alive");
        total += if commands { last.command_count } else { last.event_count };
        let expected: u64 = n_threads as u64 * incs.iter().sum::<u64>();
        if total != expected {
            panic!("LAW counts_not_lost: snapshots sum to {} but {} were counted", total, expected);
        }
    });
}

const LOOM_SCENARIOS: [&str; 3] = ["2x2+2snap", "2x1+2snap-commands", "3x1+1snap"];

fn loom_leg(ctx: &Ctx) {
    if vcommon::sched::is_worker() {
        return;
    }
    let t0 = Instant::now();
    let exe = std::env::current_exe().unwrap();
    let thorough = !ctx.quick();
    let scs: Vec<&str> = LOOM_SCENARIOS.to_vec();
    // Each scenario runs in a child process under a wall-clock limit with falling preemption
    // bounds (0 = unbounded); the bound that completed is what the evidence states.
    let bounds: Vec<usize> = if thorough { vec![0, 6, 5, 4] } else { vec![3, 2] };
    let limit = std::time::Duration::from_secs(if thorough { 300 } else { 40 });
    let results = vcommon::par_map(&scs, 3, |_, sc| {
        let mut last: (Option<i32>, Option<u64>, String, usize) = (None, None, String::from("no bound completed within the time limit"), usize::MAX);
        for &b in &bounds {
            let child = std::process::Command::new(&exe)
                .arg("--loom-scenario")
                .arg(sc)
                .env("VERIF_LOOM_BOUND", b.to_string())
                .env_remove("LD_PRELOAD")
                .stdout(std::process::Stdio::piped())
                .stderr(std::process::Stdio::piped())
                .spawn();
            let mut child = match child {
                Ok(c) => c,
                Err(e) => return (None, None, format!("spawn failed: {}", e), b),
            };
            let started = Instant::now();
            let mut timed_out = false;
            loop {
                match child.try_wait() {
                    Ok(Some(_)) => break,
                    Ok(None) => {
                        if started.elapsed() > limit {
                            let _ = child.kill();
                            timed_out = true;
                            break;
                        }
                        std::thread::sleep(std::time::Duration::from_millis(50));
                    }
                    Err(_) => break,
                }
            }
            if timed_out {
                let _ = child.wait();
                continue;
            }
            match child.wait_with_output() {
                Ok(o) => {
                    let so = String::from_utf8_lossy(&o.stdout).to_string();
                    let se = String::from_utf8_lossy(&o.stderr).to_string();
                    last = (o.status.code(), so.lines().find_map(|l| l.strip_prefix("LOOM-EXECUTIONS ").and_then(|n| n.trim().parse::<u64>().ok())), se, b);
                }
                Err(e) => last = (None, None, format!("wait failed: {}", e), b),
            }
            break;
        }
        last
    });
    let mut total = 0u64;
    let mut samples = vec![];
    let mut all_top = true;
    for (sc, (code, n, se, bound)) in scs.iter().zip(results) {
        if bound != bounds[0] {
            all_top = false;
        }
        let bound_txt = if bound == 0 { "unbounded".to_string() } else if bound == usize::MAX { "none".to_string() } else { bound.to_string() };
        match (code, n) {
            (Some(0), Some(n)) => {
                total += n;
                samples.push(json!({"scenario": sc, "executions": n, "preemption_bound_completed": bound_txt}));
            }
            (None, None) if se.starts_with("no bound completed") => {
                samples.push(json!({"scenario": sc, "executions": 0, "preemption_bound_completed": null, "note": se}));
            }
            _ => {
                if let Some(p) = se.find("LAW ") {
                    let law = se[p + 4..].split(':').next().unwrap_or("?").to_string();
                    let tail: String = se.lines().rev().take(8).collect::<Vec<_>>().into_iter().rev().collect::<Vec<_>>().join("\n");
                    ctx.violation("loom", &format!("loom scenario={} law={}", sc, law), json!({"scenario": sc, "explanation": tail, "what": format!("loom {}: {}", sc, law)}));
                } else {
                    eprintln!("{}", &se[se.len().saturating_sub(1500)..]);
                    vcommon::machinery_failure("loom child crashed without a verdict");
                }
            }
        }
    }
    ctx.add_leg(Leg {
        name: "loom-reporting".into(),
        engine: "E3-loom".into(),
        states: total,
        transitions: total,
        evaluations: total,
        distinct_nontrivial: scs.len() as u64,
        rule: "loom executions over the listed scenarios (counting threads x increments + snapshot thread); per scenario the highest preemption bound that completed within the wall limit".into(),
        samples,
        exhaustive: all_top,
        bounds: json!({"preemption_bounds_tried": bounds.iter().map(|b| if *b == 0 { "unbounded".to_string() } else { b.to_string() }).collect::<Vec<_>>(), "wall_limit_s_per_attempt": limit.as_secs(), "scenarios": scs}),
        wall_s: t0.elapsed().as_secs_f64(),
    });
}

// ------------------------------------------------------------------------------------------
// leg as-reporting
// ------------------------------------------------------------------------------------------

fn as_checker(obs: &Observation) -> Vec<(String, String)> {
    let mut out = vec![];
    if obs.fault_before_quiescence && obs.remotes.iter().all(|r| r.dropped_at.is_none()) {
        // a stop/tick deviation: the run is being torn down, nothing is claimed
        return out;
    }
    if obs.truth_at_quiescence.is_none() || obs.reports_at_quiescence.is_empty() {
        return out;
    }
    // links as the remotes observed them at quiescence (all frames drained, so exact)
    let mut linked: BTreeMap<String, usize> = BTreeMap::new();
    for r in &obs.remotes {
        if r.dropped_at.is_some() {
            continue; // its links are removed when the runtime notices; in flight: no claim
        }
        let q = r.frames_at_quiescence.unwrap_or(r.frames.len());
        let mut state: BTreeMap<String, bool> = BTreeMap::new();
        for f in r.frames.iter().take(q) {
            match f.kind {
                FrameKind::Linked => {
                    state.insert(f.lane.clone(), true);
                }
                FrameKind::Unlinked => {
                    state.insert(f.lane.clone(), false);
                }
                _ => {}
            }
        }
        for (l, on) in state {
            if on {
                *linked.entry(l).or_default() += 1;
            }
        }
    }
    // a dropped remote whose completion promise is resolved has been removed by the runtime;
    // until then the runtime may not have noticed and only a lower bound is claimed
    let any_dropped = obs.remotes.iter().any(|r| r.dropped_at.is_some() && !r.completed_at_quiescence);
    let mut total = 0u64;
    for (name, snap) in &obs.reports_at_quiescence {
        if name == "<aggregate>" {
            continue;
        }
        let want = linked.get(name).cloned().unwrap_or(0) as u64;
        total += want;
        match snap {
            Some((lc, _, _)) => {
                // with a dropped remote the runtime may not have noticed yet: lower bound only
                if (*lc != want && !any_dropped) || (*lc < want) {
                    out.push((
                        "as: reported uplink count of a lane differs from the number of linked remotes".to_string(),
                        format!("lane {} reports {} links at quiescence, remotes observe {}", name, lc, want),
                    ));
                }
            }
            None => out.push(("as: lane reporter dropped while the agent runs".to_string(), format!("lane {}", name))),
        }
    }
    if let Some((_, Some((lc, _, _)))) = obs.reports_at_quiescence.iter().find(|(n, _)| n == "<aggregate>") {
        if (*lc != total && !any_dropped) || *lc < total {
            out.push((
                "as: aggregate uplink count differs from the number of links".to_string(),
                format!("agent reports {} links at quiescence, remotes observe {}", lc, total),
            ));
        }
    }
    // commands received per lane
    if !any_dropped {
        for (name, (_, cmds)) in &obs.report_totals {
            if name == "<aggregate>" {
                continue;
            }
            let sent: u64 = obs.remotes.iter().map(|r| r.sent.iter().filter(|(_, s)| matches!(s, Step::Cmd(l, _) if l == name)).count() as u64).sum();
            if *cmds != sent {
                out.push((
                    "as: command counter differs from the number of command envelopes delivered".to_string(),
                    format!("lane {}: counted {} commands, {} envelopes were sent", name, cmds, sent),
                ));
            }
        }
        // the agent level counter sees every command envelope for a lane that exists, whatever the
        // lane then makes of it
        if let Some((_, agg_cmds)) = obs.report_totals.get("<aggregate>") {
            let lanes: Vec<&String> = obs.report_totals.keys().filter(|n| *n != "<aggregate>").collect();
            let sent: u64 = obs.remotes.iter().map(|r| r.sent.iter().filter(|(_, s)| matches!(s, Step::Cmd(l, _) if lanes.iter().any(|n| *n == l))).count() as u64).sum();
            if *agg_cmds != sent {
                out.push((
                    "as: aggregate command counter differs from the number of command envelopes delivered".to_string(),
                    format!("agent counted {} commands, {} envelopes were sent to lanes that report", agg_cmds, sent),
                ));
            }
        }
        // events: every event frame a remote received was counted (counting happens per link at
        // the push into the uplink, coalescing can only make frames fewer)
        for (name, (evs, _)) in &obs.report_totals {
            if name == "<aggregate>" {
                continue;
            }
            let got: u64 = obs.remotes.iter().map(|r| r.frames.iter().take(r.frames_at_quiescence.unwrap_or(r.frames.len())).filter(|f| f.lane == *name && f.kind == FrameKind::Event).count() as u64).sum();
            if *evs < got {
                out.push((
                    "as: fewer events counted than event frames delivered".to_string(),
                    format!("lane {}: counted {} events, remotes received {} event frames", name, evs, got),
                ));
            }
        }
    }
    out
}

fn as_leg(ctx: &Ctx) {
    let quick = ctx.quick();
    let pool: Vec<Vec<Step>> = vec![
        vec![link("v"), cmd("v", "1"), unlink("v")],
        vec![sync("v"), cmd("v", "2")],
        vec![link("v"), link("m"), unlink("v")],
        vec![sync("m"), act(&["@upd{k:1,v:1}"]), unlink("m")],
        vec![link("s"), act(&["@push(1)", "@push(2)"])],
        vec![link("x"), sync("v"), link("v")],
        // a command the lane cannot decode (not a map message) and commands after it
        vec![link("m"), cmd("m", "@update(key:1) 1"), cmd("m", "@bogus"), cmd("m", "@remove(key:1)"), cmd("v", "3")],
    ];
    let mut cfgs = vec![];
    for (i, a) in pool.iter().enumerate() {
        for (j, b) in pool.iter().enumerate() {
            if quick && (i + j) % 2 == 1 {
                continue;
            }
            let mut script = vec![];
            for k in 0..a.len().max(b.len()) {
                if k < a.len() {
                    script.push((0, a[k].clone()));
                }
                if k < b.len() {
                    script.push((1, b[k].clone()));
                }
            }
            for (cap, budget) in [(8usize, 2usize), (4096, 64)] {
                for fd in [false, true] {
                    let mut c = Cfg::basic(script.clone(), 2);
                    c.cap = cap;
                    c.budget = budget;
                    c.reporting = true;
                    c.fault_drop = fd;
                    c.mode = Mode::Eager;
                    cfgs.push(c);
                }
            }
        }
    }
    run_grid(ctx, GridSpec { name: "as-reporting".into(), cfgs, bound: if quick { 1 } else { 2 }, max_exec_per_cfg: if quick { 10_000 } else { 500_000 }, wall_cap_s: if quick { 22.0 } else { 900.0 } });
}

fn main() {
    let args: Vec<String> = std::env::args().collect();
    if args.len() >= 3 && args[1] == "--loom-scenario" {
        let bound = std::env::var("VERIF_LOOM_BOUND").ok().and_then(|b| b.parse::<usize>().ok()).unwrap_or(3);
        loom_scenario(&args[2], if bound == 0 { None } else { Some(bound) });
        println!("LOOM-EXECUTIONS {}", LOOM_EXECUTIONS.load(StdOrdering::Relaxed));
        return;
    }
    let ctx = Ctx::from_env("C20");
    set_checker(as_checker);
    if let Some(r) = ctx.replay_request() {
        match r["leg"].as_str().unwrap_or("") {
            "links" => {
                let ops: Vec<Op> = serde_json::from_value(r["detail"]["ops"].clone()).unwrap();
                if let Err(e) = build(&ops) {
                    println!("REPRODUCED: {}", e);
                    ctx.violation("links", r["signature"].as_str().unwrap(), r["detail"].clone());
                }
            }
            "wt-links-reported" => asys::wtlinks::replay(&ctx, r),
            "loom" => {
                let exe = std::env::current_exe().unwrap();
                let o = std::process::Command::new(exe).arg("--loom-scenario").arg(r["detail"]["scenario"].as_str().unwrap()).env("VERIF_LOOM_BOUND", "4").output().unwrap();
                if !o.status.success() {
                    ctx.violation("loom", r["signature"].as_str().unwrap(), r["detail"].clone());
                }
            }
            _ => as_replay(&ctx, r),
        }
        ctx.finish("model_checking", "replay");
    }
    links_leg(&ctx, "links", None);
    // the real write task alone with an aggregate reporter: the reported count against the links
    // the remotes actually hold, including link requests from remotes the task does not know
    asys::wtlinks::run_leg(&ctx, "wt-links-reported");
    loom_leg(&ctx);
    as_leg(&ctx);
    ctx.assume("reporters are registered together with their lane, i.e. before the lane can be linked (as the write task does)");
    ctx.assume("remove_lane / remove_all_links iterators are consumed completely (as the write task does)");
    ctx.assume("loom: Arc/Weak of the reporter stay std types; only the three AtomicU64 counters are modelled; saturation at u64::MAX is outside the bound");
    ctx.finish(
        "model_checking",
        "explicit-state BFS of the real Links registry with real reporters against a reference; loom over the real reporting source; deviation-bounded schedule exploration of the real agent+runtime with NodeReporting",
    );
}

fn main() {
    vcommon::machinery_failure("C04: engine not built yet");
}

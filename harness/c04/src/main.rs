//! C04 - Every uplink follows the WARP link state machine; no fabricated frames.
//! Leg `as-*` (E1): the real agent + runtime future under the deviation-bounded schedule explorer.

use asys::grid::{replay, run_grid, GridSpec};
use asys::oracle::check_c04;
use asys::scripts::*;
use asys::world::{set_checker, Cfg, Mode, Step};
use vcommon::Ctx;

fn pool() -> Vec<Vec<Step>> {
    vec![
        vec![link("v"), cmd("v", "1"), unlink("v")],
        vec![sync("v"), cmd("v", "2")],
        vec![link("v"), sync("v"), unlink("v")],
        vec![link("x"), sync("x")],
        vec![link("v"), link("v"), unlink("v"), unlink("v")],
        vec![sync("m"), act(&["@upd{k:1,v:1}", "@upd{k:2,v:2}"]), unlink("m")],
        vec![link("s"), act(&["@push(1)", "@push(2)", "@push(3)"])],
        vec![unlink("v"), sync("v")],
        vec![link("m"), act(&["@upd{k:1,v:1}", "@rem(1)", "@clr"])],
        vec![act(&["@setv(3)", "@setv(4)"]), sync("v")],
        vec![sync("v"), sync("w"), cmd("w", "9"), unlink("v")],
        // requests repeated on an open link / arriving out of order while data is still waiting
        vec![link("v"), cmd("v", "1"), cmd("v", "2"), link("v"), cmd("v", "3")],
        vec![link("m"), act(&["@upd{k:1,v:1}", "@upd{k:2,v:2}"]), link("m"), sync("m"), act(&["@upd{k:1,v:3}"])],
        vec![link("s"), act(&["@push(1)", "@push(2)"]), link("s"), act(&["@push(3)"])],
        vec![sync("m"), link("m"), act(&["@upd{k:1,v:1}"]), sync("m")],
        vec![sync("s"), link("s"), act(&["@push(1)", "@push(2)"]), link("s")],
        // take / drop addressed to the map lane
        vec![sync("m"), act(&["@upd{k:1,v:1}", "@upd{k:2,v:2}", "@upd{k:3,v:3}"]), cmd("m", "@drop(1)"), cmd("m", "@take(0)"), act(&["@upd{k:4,v:4}"])],
        // a command the lane cannot decode, in the middle of ordinary traffic
        vec![link("m"), cmd("m", "@bogus"), cmd("m", "@update(key:1) 1"), sync("m"), cmd("m", "@remove(key:1)")],
        // the agent's handler fails: every lane fails, every open link must be closed
        vec![link("v"), sync("m"), act(&["@setv(5)", "@fail"])],
        vec![link("s"), act(&["@push(1)", "@fail", "@push(2)"])],
    ]
}

fn alternating(a: &[Step], b: &[Step]) -> Vec<(usize, Step)> {
    let mut out = vec![];
    let n = a.len().max(b.len());
    for i in 0..n {
        if i < a.len() {
            out.push((0, a[i].clone()));
        }
        if i < b.len() {
            out.push((1, b[i].clone()));
        }
    }
    out
}

fn main() {
    let ctx = Ctx::from_env("C04");
    set_checker(check_c04);
    if let Some(r) = ctx.replay_request() {
        if r["leg"].as_str().map(|l| l.starts_with("uplinks")).unwrap_or(false) {
            asys::uplinks::replay(&ctx, r);
            ctx.finish("model_checking", "replay");
        }
        if r["leg"].as_str() == Some("wt-lane-failure") {
            asys::wtlinks::replay(&ctx, r);
            ctx.finish("model_checking", "replay");
        }
        if r["leg"].as_str() == Some("links-bfs") {
            let ops: Vec<asys::linksbfs::Op> = serde_json::from_value(r["detail"]["ops"].clone()).unwrap();
            if let Err(e) = asys::linksbfs::build(&ops) {
                ctx.violation("links-bfs", r["signature"].as_str().unwrap(), serde_json::json!({"ops": ops, "explanation": e}));
            }
            ctx.finish("model_checking", "replay");
        }
        replay(&ctx, r);
        ctx.finish("model_checking", "replay");
    }
    let quick = ctx.quick();
    // --- leg 00 (E2): the write task's link registry alone: which remote is linked to what, under
    // every sequence of link / unlink / remote removal / lane failure (a failing lane cannot be
    // produced with the real agent, whose lanes do not write malformed frames)
    asys::linksbfs::links_leg(&ctx, "links-bfs", Some(&["prune_iff_no_links", "remove_lane_reports_its_links", "remove_all_reports_every_link", "is_linked_true", "linked_to_true", "linked_from_true"]));
    // --- leg 01 (E1): the real write task alone, a lane's response stream turns into garbage
    asys::wtlinks::run_leg(&ctx, "wt-lane-failure");
    // --- leg 0 (E2): the real Uplinks scheduler alone, every operation history to a depth bound
    asys::uplinks::run(&ctx, "uplinks-bfs", if quick { 7 } else { 8 }, |_| true);
    let p = pool();
    // --- leg 1: full grid, d <= 1
    let mut cfgs = vec![];
    for (i, a) in p.iter().enumerate() {
        for (j, b) in p.iter().enumerate() {
            if quick && (i + 2 * j) % 3 != 0 {
                continue; // quick tier: a third of the pairs (deterministic selection)
            }
            for script in [alternating(a, b), sequential(&[a.clone(), b.clone()])] {
                for cap in [8usize, 64, 4096] {
                    for budget in [2usize, 64] {
                        for mode in [Mode::Eager, Mode::Burst, Mode::SlowRead] {
                            let mut c = Cfg::basic(script.clone(), 2);
                            c.cap = cap;
                            c.budget = budget;
                            c.mode = mode;
                            cfgs.push(c);
                        }
                    }
                }
            }
        }
    }
    let mut small = asys::grid::with_small_lane_buf(&cfgs);
    small.extend(asys::grid::with_small_lane_in_buf(&cfgs));
    small.extend(cfgs);
    let cfgs = small;
    run_grid(&ctx, GridSpec { name: "as-grid-d1".into(), cfgs, bound: 1, max_exec_per_cfg: 20_000, wall_cap_s: if quick { 25.0 } else { 600.0 } });

    // --- leg 2: single-remote core, d <= 2 (3 thorough)
    let mut cfgs = vec![];
    for a in p.iter() {
        for cap in [8usize, 4096] {
            for budget in [2usize, 64] {
                let mut c = Cfg::basic(sequential(&[a.clone()]), 1);
                c.cap = cap;
                c.budget = budget;
                cfgs.push(c);
            }
        }
    }
    run_grid(&ctx, GridSpec { name: "as-core-d2".into(), cfgs, bound: if quick { 2 } else { 3 }, max_exec_per_cfg: if quick { 30_000 } else { 2_000_000 }, wall_cap_s: if quick { 15.0 } else { 900.0 } });

    // --- leg 2b: a remote goes away with requests still in flight and a remote with the same
    // routing id attaches again (an agent-to-agent link keeps its id across reconnects)
    let reattach: Vec<Vec<(usize, Step)>> = vec![
        // a remote that loses its framing: the other remote's links are served as before
        vec![(0, link("v")), (1, link("v")), (1, sync("m")), (1, Step::Garbage), (0, cmd("v", "5")), (0, act(&["@upd{k:1,v:1}"])), (0, sync("m"))],
        vec![(1, link("s")), (1, Step::Garbage), (0, sync("v")), (0, act(&["@push(1)", "@setv(6)"])), (0, unlink("v"))],
        vec![(1, link("s")), (0, sync("v")), (0, act(&["@push(1)", "@setv(6)"])), (0, unlink("v"))],
        vec![(0, link("v")), (0, sync("m")), (0, Step::Detach), (1, Step::Attach(0)), (1, act(&["@upd{k:1,v:1}"])), (1, act(&["@setv(5)"])), (1, sync("m"))],
        vec![(0, sync("v")), (0, Step::Detach), (1, Step::Attach(0)), (1, cmd("v", "3")), (1, link("v")), (1, cmd("v", "4"))],
        vec![(0, link("s")), (0, sync("m")), (0, act(&["@push(1)"])), (0, Step::Detach), (1, Step::Attach(0)), (1, act(&["@push(2)", "@upd{k:1,v:1}"])), (1, sync("m"))],
        vec![(0, sync("m")), (0, sync("v")), (0, sync("s")), (0, Step::Detach), (1, Step::Attach(0)), (1, act(&["@upd{k:2,v:2}", "@setv(6)", "@push(3)"]))],
    ];
    let mut cfgs = vec![];
    for script in &reattach {
        for cap in [8usize, 4096] {
            for budget in [2usize, 64] {
                for mode in [Mode::Eager, Mode::Burst, Mode::SlowRead] {
                    for lane_buf in [4096usize, 8] {
                        let mut c = Cfg::basic(script.clone(), 2);
                        c.cap = cap;
                        c.budget = budget;
                        c.mode = mode;
                        c.lane_buf = lane_buf;
                        cfgs.push(c);
                    }
                }
            }
        }
    }
    run_grid(&ctx, GridSpec { name: "as-reattach-d2".into(), cfgs, bound: if quick { 2 } else { 3 }, max_exec_per_cfg: if quick { 30_000 } else { 2_000_000 }, wall_cap_s: if quick { 12.0 } else { 600.0 } });

    // --- leg 3: faults (stop / remote disconnect at every position), d <= 1 (2 thorough)
    let mut cfgs = vec![];
    for (i, a) in p.iter().enumerate() {
        let b = &p[(i + 5) % p.len()];
        for cap in [8usize, 4096] {
            for (fs, fd) in [(true, false), (false, true)] {
                let mut c = Cfg::basic(alternating(a, b), 2);
                c.cap = cap;
                c.budget = if cap == 8 { 2 } else { 64 };
                c.fault_stop = fs;
                c.fault_drop = fd;
                cfgs.push(c);
            }
        }
    }
    run_grid(&ctx, GridSpec { name: "as-faults".into(), cfgs, bound: if quick { 1 } else { 2 }, max_exec_per_cfg: if quick { 20_000 } else { 1_000_000 }, wall_cap_s: if quick { 15.0 } else { 900.0 } });

    ctx.assume("tokio select! start index and HashMap iteration order are fixed per VERIF_SEED (deterministic interposer), not enumerated");
    ctx.assume("schedule switches happen only where the subject future returns Pending (plus the forced yields of the coop budget)");
    ctx.finish(
        "model_checking",
        "deviation-bounded exhaustive schedule exploration of the real agent+runtime future with scripted remotes; frame-level state machine and body provenance oracle",
    );
}

fn main() {
    vcommon::machinery_failure("C14: engine not built yet");
}

//! C14 - Supply lanes, command lanes and agent-sent commands are never coalesced.
//! Engine E1 over the agent-system harness.

use asys::grid::{grid, replay, run_grid, GridSpec};
use asys::oracle::{check_c01, check_c04, check_c14};
use asys::scripts::*;
use asys::world::{set_checker, Mode, Observation, Step};
use vcommon::Ctx;

fn checker(obs: &Observation) -> Vec<(String, String)> {
    let mut v = check_c14(obs);
    // a value lane sharing the slow remote's writer must still satisfy C01
    v.extend(check_c01(obs));
    for (s, e) in check_c04(obs) {
        if s.contains("never produced") || s.contains("undecodable") {
            v.push((s, e));
        }
    }
    v
}

fn push(xs: &[i32]) -> Step {
    let ops: Vec<String> = xs.iter().map(|x| format!("@push({})", x)).collect();
    let refs: Vec<&str> = ops.iter().map(|s| s.as_str()).collect();
    act(&refs)
}

fn send(items: &[(&str, i32, bool)]) -> Step {
    let ops: Vec<String> = items.iter().map(|(t, v, ow)| format!("@send{{node:\"{}\",lane:x,value:{},ow:{}}}", t, v, ow)).collect();
    let refs: Vec<&str> = ops.iter().map(|s| s.as_str()).collect();
    act(&refs)
}

fn sendh(items: &[(&str, i32, bool)]) -> Step {
    // several lanes of one remote host share a single output (and its dirty list)
    let ops: Vec<String> = items.iter().map(|(l, v, ow)| format!("@sendh{{host:\"warp://h:9001\",node:\"/r\",lane:{},value:{},ow:{}}}", l, v, ow)).collect();
    let refs: Vec<&str> = ops.iter().map(|s| s.as_str()).collect();
    act(&refs)
}

fn scripts(quick: bool) -> Vec<(Vec<(usize, Step)>, usize)> {
    let mut out: Vec<(Vec<(usize, Step)>, usize)> = vec![];
    // supply bursts far larger than the remote's 8 byte channel
    out.push((sequential(&[vec![link("s"), push(&[1, 2, 3, 4, 5, 6])]]), 1));
    out.push((sequential(&[vec![link("s"), push(&[1, 2, 3]), unlink("s"), push(&[4]), link("s"), push(&[5, 6])]]), 1));
    out.push((sequential(&[vec![sync("s"), push(&[1, 2]), push(&[3, 4])]]), 1));
    // supply and value lane share one slow remote
    out.push((sequential(&[vec![link("s"), link("v"), act(&["@push(1)", "@setv(100)", "@push(2)", "@setv(101)", "@push(3)"])]]), 1));
    // a second remote links in the middle of the burst
    for s in interleavings(&[vec![link("s"), push(&[1, 2, 3]), push(&[4, 5, 6])], vec![link("s")]]) {
        out.push((s, 2));
    }
    // command lane: two remotes
    let a = vec![cmd("k", "1"), cmd("k", "2"), cmd("k", "3")];
    let b = vec![cmd("k", "11"), cmd("k", "12")];
    let all = interleavings(&[a.clone(), b.clone()]);
    let step = if quick { 3 } else { 1 };
    for (i, s) in all.into_iter().enumerate() {
        if i % step == 0 {
            out.push((s, 2));
        }
    }
    // agent-sent commands: two targets, mixed overwrite flags
    out.push((sequential(&[vec![send(&[("/t1", 1, false), ("/t1", 2, true), ("/t1", 3, false)])]]), 1));
    out.push((sequential(&[vec![send(&[("/t1", 1, true), ("/t2", 2, false), ("/t1", 3, true), ("/t2", 4, true), ("/t1", 5, false)])]]), 1));
    out.push((sequential(&[vec![send(&[("/t1", 1, false)]), send(&[("/t1", 2, true), ("/t1", 3, true)]), send(&[("/t2", 4, false), ("/t1", 5, true)])]]), 1));
    // overwritable commands whose encodings differ in length (a replaced record is truncated and
    // rewritten in place), followed by more commands to the same target
    out.push((sequential(&[vec![send(&[("/t1", 1, true), ("/t1", 22222222, true), ("/t1", 3, false)])]]), 1));
    out.push((sequential(&[vec![send(&[("/t1", 22222223, true), ("/t1", 4, true), ("/t1", 55555, true), ("/t1", 6, true), ("/t1", 7, false)])]]), 1));
    out.push((sequential(&[vec![send(&[("/t1", 9, true), ("/t2", 1, false), ("/t1", 10, true), ("/t2", 22222224, true), ("/t1", 11, false), ("/t2", 3, true)])]]), 1));
    out.push((sequential(&[vec![sendh(&[("x", 1, true), ("y", 2, true), ("x", 22222225, true), ("y", 33333, true), ("x", 3, false), ("y", 4, false)])]]), 1));
    // registered commanders: one created in on_start (c0 -> /t0), others while the agent runs
    out.push((sequential(&[vec![act(&["@mkc{name:c1,node:\"/t1\",lane:x}"]), act(&["@sendc{name:c0,value:1,ow:false}", "@sendc{name:c1,value:2,ow:false}", "@sendc{name:c0,value:3,ow:false}", "@sendc{name:c1,value:4,ow:false}", "@sendc{name:c0,value:5,ow:false}"])]]), 1));
    out.push((sequential(&[vec![act(&["@sendc{name:c0,value:1,ow:true}"]), act(&["@mkc{name:c1,node:\"/t1\",lane:y}", "@sendc{name:c1,value:22222222,ow:true}", "@sendc{name:c0,value:3,ow:true}", "@sendc{name:c1,value:4,ow:false}"]), act(&["@mkc{name:c2,node:\"/t0\",lane:z}", "@sendc{name:c2,value:5,ow:false}", "@sendc{name:c0,value:6,ow:false}"])]]), 1));
    // several lanes behind one remote host: interleaved targets buffered in one batch
    out.push((sequential(&[vec![sendh(&[("x", 41, false), ("y", 42, false), ("x", 43, false)])]]), 1));
    out.push((sequential(&[vec![sendh(&[("x", 44, false)]), sendh(&[("y", 45, false), ("x", 46, true), ("y", 47, false), ("x", 48, false)])]]), 1));
    out.push((sequential(&[vec![sendh(&[("x", 49, true), ("y", 50, true)]), sendh(&[("x", 51, true)]), sendh(&[("z", 52, false), ("y", 53, true), ("z", 54, false)])]]), 1));
    out
}

fn main() {
    let ctx = Ctx::from_env("C14");
    set_checker(checker);
    if let Some(r) = ctx.replay_request() {
        if r["leg"].as_str().map(|l| l.starts_with("uplinks")).unwrap_or(false) {
            asys::uplinks::replay(&ctx, r);
            ctx.finish("model_checking", "replay");
        }
        replay(&ctx, r);
        ctx.finish("model_checking", "replay");
    }
    let quick = ctx.quick();
    asys::uplinks::run(&ctx, "uplinks-bfs-supply", if quick { 7 } else { 8 }, |m| m.contains("supply") || m.contains("terminates") || m.contains("one_writer"));
    let sc = scripts(quick);
    let modes = [Mode::Eager, Mode::Burst, Mode::SlowRead];
    let cfgs = grid(&sc, &[8, 16, 4096], &[2, 3, 64], &modes, &[0, 5]);
    let mut small = asys::grid::with_small_lane_buf(&cfgs);
    small.extend(asys::grid::with_small_lane_in_buf(&cfgs));
    small.extend(cfgs);
    let cfgs = small;
    run_grid(&ctx, GridSpec { name: "as-nocoalesce-grid-d1".into(), cfgs, bound: 1, max_exec_per_cfg: 20_000, wall_cap_s: if quick { 25.0 } else { 900.0 } });
    let core: Vec<_> = sc.iter().filter(|(s, _)| s.len() <= 4).cloned().collect();
    let cfgs = grid(&core, &[8], &[2, 64], &[Mode::Eager, Mode::SlowRead], &[0, 5]);
    run_grid(&ctx, GridSpec { name: "as-nocoalesce-core-d2".into(), cfgs, bound: if quick { 2 } else { 3 }, max_exec_per_cfg: if quick { 20_000 } else { 3_000_000 }, wall_cap_s: if quick { 20.0 } else { 1200.0 } });
    ctx.assume("tokio select! start index and HashMap iteration order are fixed per VERIF_SEED (deterministic interposer), not enumerated");
    ctx.assume("pushed / commanded values are distinct within a run so that a received item identifies its origin");
    ctx.finish(
        "model_checking",
        "deviation-bounded exhaustive schedule exploration of the real agent+runtime future; exactly-once in-order delivery oracles for supply events, command handler invocations and agent-sent commands",
    );
}

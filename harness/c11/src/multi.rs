//! Leg (b), engine E2: explicit-state search over the real `swimos_multi_reader::MultiReader`.
//!
//! Streams are scripted: each has a queue of available items, a `closed` flag and the waker it
//! was last polled with; the harness decides when an item becomes available (waking the stored
//! waker, as a channel would). Inert filler streams occupy the other slab slots so that the
//! scripted ones sit at slab indices 0, 1, 63, 64, 65 (and 128/129) - `BUCKET_SIZE` is 64.
//!
//! A state is the operation history; `step` rebuilds a fresh reader and replays it. The
//! de-duplication key is (reference state, shadow of the reader's rotation state). The shadow is a
//! model of the hidden fields (`current_bucket`, `local_flags`, `queue_flags`, bucket atomics, slab
//! free list) that is *validated on every transition* against what can be observed: the exact
//! order in which the reader polls the inner streams and the item it returns. If the real reader
//! ever deviates from the shadow, that history (and all its extensions) falls back to the full
//! history as key, so de-duplication never merges states the shadow does not explain. The shadow is
//! used for the key only: the oracle below is the specification, not the shadow.
//!
//! Oracle on every `poll`:
//!  * an item returned is the next undelivered item of its stream (exactly once, in order), and
//!    every item a stream handed to the reader is handed on to the caller;
//!  * `Pending` only if no stream has an available item; then every stream that has not ended
//!    holds a registered waker (no lost wake-up) and there is at least one such stream;
//!  * waking a stream's stored waker reaches the waker of the polling task;
//!  * `Ready(None)` only if every stream has ended;
//!  * a stream with an available item is returned before any other stream has been returned more
//!    than `FAIR_BOUND` times (one rotation in progress plus one full rotation);
//!  * no stream is dropped before it ended or polled after it ended; no panic.

use futures::Stream;
use serde_json::{json, Value as J};
use std::collections::VecDeque;
use std::panic::{catch_unwind, AssertUnwindSafe};
use std::pin::Pin;
use std::sync::atomic::{AtomicUsize, Ordering};
use std::cell::RefCell;
use std::rc::Rc;
use std::sync::Arc;
use std::task::{Context, Poll, Wake, Waker};
use std::time::Instant;
use swimos_multi_reader::MultiReader;
use vcommon::{Ctx, Leg};

/// While a stream has an item available, any other single stream may be returned at most this
/// many times before it: once because it may already sit in the local copy of the flags that is
/// being worked through, and once more in the following rotation if its index is lower.
pub const FAIR_BOUND: u8 = 2;
const BUCKET: usize = 64;

#[derive(Clone, Copy, Debug, PartialEq, Eq, Hash)]
pub enum Op {
    /// Make the next item of scripted stream `i` available (and wake its stored waker).
    Ready(u8),
    /// Close scripted stream `i` (and wake its stored waker).
    Close(u8),
    /// Add a new scripted stream to the reader.
    Add,
    /// Poll the reader once.
    Poll,
}

impl Op {
    fn text(&self) -> String {
        match self {
            Op::Ready(i) => format!("ready:{}", i),
            Op::Close(i) => format!("close:{}", i),
            Op::Add => "add".into(),
            Op::Poll => "poll".into(),
        }
    }
    fn parse(s: &str) -> Option<Op> {
        if s == "add" {
            Some(Op::Add)
        } else if s == "poll" {
            Some(Op::Poll)
        } else if let Some(i) = s.strip_prefix("ready:") {
            i.parse().ok().map(Op::Ready)
        } else if let Some(i) = s.strip_prefix("close:") {
            i.parse().ok().map(Op::Close)
        } else {
            None
        }
    }
}

#[derive(Clone, Debug)]
pub struct Config {
    pub name: &'static str,
    /// Number of streams added before the exploration starts (slab indices 0..prelude).
    pub prelude: usize,
    /// Which of those are scripted (the rest are inert fillers).
    pub scripted: Vec<usize>,
    pub max_adds: u8,
    pub script_len: u8,
}

pub fn configs() -> Vec<Config> {
    vec![
        Config { name: "empty_start", prelude: 0, scripted: vec![], max_adds: 3, script_len: 3 },
        Config { name: "single_bucket_0_1", prelude: 2, scripted: vec![0, 1], max_adds: 2, script_len: 3 },
        Config { name: "boundary_0_1_63_add_64_65", prelude: 64, scripted: vec![0, 1, 63], max_adds: 2, script_len: 3 },
        Config { name: "two_buckets_0_63_64_65", prelude: 66, scripted: vec![0, 63, 64, 65], max_adds: 1, script_len: 3 },
        Config { name: "three_buckets_1_128_add_129", prelude: 129, scripted: vec![1, 128], max_adds: 2, script_len: 3 },
        // small configurations whose whole reachable space is searched (true fixpoint)
        Config { name: "pair_63_add_64", prelude: 64, scripted: vec![63], max_adds: 1, script_len: 3 },
        Config { name: "pair_0_add_64", prelude: 64, scripted: vec![0], max_adds: 1, script_len: 3 },
        Config { name: "triple_63_64_add_65", prelude: 65, scripted: vec![63, 64], max_adds: 1, script_len: 2 },
        Config { name: "second_bucket_64_65_reuse", prelude: 66, scripted: vec![64, 65], max_adds: 1, script_len: 2 },
    ]
}

/// (config index, depth bound) per tier.
fn plan(quick: bool) -> Vec<(usize, usize)> {
    let p = std::env::var("C11_PLAN").ok();
    if let Some(p) = p {
        return p.split(',').map(|x| { let mut it = x.split(':'); (it.next().unwrap().parse().unwrap(), it.next().unwrap().parse().unwrap()) }).collect();
    }
    if quick {
        vec![(0, 64), (5, 64), (6, 64), (7, 64), (8, 64), (1, 11), (2, 9), (3, 8), (4, 9)]
    } else {
        vec![(0, 64), (5, 64), (6, 64), (7, 64), (8, 64), (1, 14), (2, 11), (3, 10), (4, 12)]
    }
}

// ------------------------------------------------------------------------------------------
// The scripted streams (the environment of the reader)

#[derive(Clone, Copy, Debug, PartialEq, Eq)]
enum Last {
    NeverPolled,
    ReturnedItem,
    ReturnedPending,
    Woken,
}

impl Last {
    fn cause(self) -> &'static str {
        match self {
            Last::NeverPolled => "added_never_polled",
            Last::ReturnedItem => "after_returning_item",
            Last::ReturnedPending => "pending_not_woken",
            Last::Woken => "after_wake",
        }
    }
}

struct Cell {
    scripted: bool,
    avail: VecDeque<u8>,
    closed: bool,
    ended: bool,
    dropped: bool,
    waker: Option<Waker>,
    handed: u8,
    polled_after_end: bool,
    last: Last,
}

struct World {
    cells: Vec<Cell>,
    poll_log: Vec<u16>,
    inner_polls: usize,
}

struct Scripted {
    uid: usize,
    w: Rc<RefCell<World>>,
}

const RUNAWAY: &str = "c11-runaway-poll-loop";

impl Stream for Scripted {
    type Item = (u16, u8);
    fn poll_next(self: Pin<&mut Self>, cx: &mut Context<'_>) -> Poll<Option<Self::Item>> {
        let mut w = self.w.borrow_mut();
        w.poll_log.push(self.uid as u16);
        w.inner_polls += 1;
        if w.inner_polls > 8 * (w.cells.len() + 8) {
            drop(w);
            panic!("{}", RUNAWAY);
        }
        let uid = self.uid;
        let c = &mut w.cells[uid];
        if c.ended {
            c.polled_after_end = true;
            return Poll::Ready(None);
        }
        if let Some(seq) = c.avail.pop_front() {
            c.handed += 1;
            c.last = Last::ReturnedItem;
            Poll::Ready(Some((self.uid as u16, seq)))
        } else if c.closed {
            c.ended = true;
            Poll::Ready(None)
        } else {
            c.waker = Some(cx.waker().clone());
            c.last = Last::ReturnedPending;
            Poll::Pending
        }
    }
}

impl Drop for Scripted {
    fn drop(&mut self) {
        if let Ok(mut w) = self.w.try_borrow_mut() {
            w.cells[self.uid].dropped = true;
        }
    }
}

struct Counter(AtomicUsize);

impl Wake for Counter {
    fn wake(self: Arc<Self>) {
        self.0.fetch_add(1, Ordering::SeqCst);
    }
}

// ------------------------------------------------------------------------------------------
// Shadow of the reader's hidden rotation state (key only)

#[derive(Clone, Debug, Default)]
struct Shadow {
    slab: Vec<Option<u16>>,
    free: Vec<usize>,
    live: usize,
    atomics: Vec<u64>,
    local: u64,
    queue: u64,
    current: usize,
}

#[derive(Clone, Debug, PartialEq, Eq)]
enum Pred {
    Item(u16),
    End,
    Pending,
}

impl Shadow {
    fn new() -> Shadow {
        Shadow { atomics: vec![0], ..Default::default() }
    }
    fn key_of(&self, uid: u16) -> Option<usize> {
        self.slab.iter().position(|s| *s == Some(uid))
    }
    fn add(&mut self, uid: u16) -> usize {
        let key = match self.free.pop() {
            Some(k) => {
                self.slab[k] = Some(uid);
                k
            }
            None => {
                self.slab.push(Some(uid));
                self.slab.len() - 1
            }
        };
        self.live += 1;
        let (b, i) = (key / BUCKET, key % BUCKET);
        if b == self.current {
            self.local |= 1 << i;
        } else if b < self.atomics.len() {
            self.atomics[b] |= 1 << i;
        } else {
            self.atomics.push(1 << i);
        }
        key
    }
    fn wake(&mut self, uid: u16) {
        if let Some(key) = self.key_of(uid) {
            self.atomics[key / BUCKET] |= 1 << (key % BUCKET);
        }
    }
    fn next_stream(&mut self) -> Option<usize> {
        if self.local == 0 {
            let start = self.current;
            if self.queue != 0 {
                self.atomics[self.current] |= self.queue;
                self.queue = 0;
            }
            loop {
                self.current += 1;
                if self.atomics.len() <= self.current {
                    self.current = 0;
                }
                self.local = std::mem::take(&mut self.atomics[self.current]);
                if self.local != 0 {
                    break;
                }
                if start == self.current {
                    return None;
                }
            }
        }
        let i = self.local.trailing_zeros() as usize;
        self.local ^= 1 << i;
        Some(i)
    }
    /// `behaviour(uid)`: 0 = has an item, 1 = closed and drained, 2 = pending.
    fn poll(&mut self, behaviour: impl Fn(u16) -> u8) -> (Vec<u16>, Pred) {
        let mut log = vec![];
        while let Some(i) = self.next_stream() {
            let key = i + self.current * BUCKET;
            if let Some(Some(uid)) = self.slab.get(key).copied() {
                log.push(uid);
                match behaviour(uid) {
                    0 => {
                        self.queue |= 1 << i;
                        return (log, Pred::Item(uid));
                    }
                    1 => {
                        self.slab[key] = None;
                        self.free.push(key);
                        self.live -= 1;
                    }
                    _ => {}
                }
            }
        }
        (log, if self.live == 0 { Pred::End } else { Pred::Pending })
    }
    fn encode(&self, out: &mut Vec<u8>) {
        out.push(self.current as u8);
        out.extend_from_slice(&self.local.to_le_bytes());
        out.extend_from_slice(&self.queue.to_le_bytes());
        out.push(self.atomics.len() as u8);
        for a in &self.atomics {
            out.extend_from_slice(&a.to_le_bytes());
        }
        out.push(self.free.len() as u8);
        for f in &self.free {
            out.push(*f as u8);
        }
        // which uid sits at which key matters only for the scripted streams; encoded by the caller
    }
}

// ------------------------------------------------------------------------------------------
// One execution: replay a history on a fresh reader, checking the oracle at every operation

#[derive(Clone, Debug)]
pub struct Violation {
    pub signature: String,
    pub text: String,
}

#[derive(Clone, Debug)]
pub struct State {
    pub ops: Vec<Op>,
    pub key: Vec<u8>,
    /// per scripted stream: (produced, closed)
    scripted: Vec<(u8, bool)>,
    adds: u8,
    pub diverged: bool,
    pub inner_polls: u64,
}

struct Run<'a> {
    #[allow(dead_code)]
    cfg: &'a Config,
    world: Rc<RefCell<World>>,
    reader: MultiReader<Scripted>,
    counter: Arc<Counter>,
    waker: Waker,
    shadow: Shadow,
    /// uid of scripted stream i
    logical: Vec<usize>,
    produced: Vec<u8>,  // per uid
    delivered: Vec<u8>, // per uid
    wait: Vec<Vec<u8>>, // [waiting logical][returned logical]
    adds: u8,
    diverged: bool,
    total_inner: u64,
}

fn viol(law: &str, cause: Option<(&Run, usize)>, text: String) -> Violation {
    let mut signature = format!("leg=multireader law={}", law);
    if let Some((run, uid)) = cause {
        let w = run.world.borrow();
        signature.push_str(&format!(" stream_state={}", w.cells[uid].last.cause()));
        drop(w);
        let bucket = match run.shadow.key_of(uid as u16) {
            Some(k) if k < BUCKET => "first",
            Some(_) => "later",
            None => "removed",
        };
        signature.push_str(&format!(" bucket={}", bucket));
    }
    Violation { signature, text }
}

impl<'a> Run<'a> {
    fn new(cfg: &'a Config) -> Run<'a> {
        let counter = Arc::new(Counter(AtomicUsize::new(0)));
        let mut run = Run {
            cfg,
            world: Rc::new(RefCell::new(World { cells: vec![], poll_log: vec![], inner_polls: 0 })),
            reader: MultiReader::new(),
            waker: Waker::from(counter.clone()),
            counter,
            shadow: Shadow::new(),
            logical: vec![],
            produced: vec![],
            delivered: vec![],
            wait: vec![],
            adds: 0,
            diverged: false,
            total_inner: 0,
        };
        for p in 0..cfg.prelude {
            let scripted = cfg.scripted.contains(&p);
            run.add_stream(scripted).expect("prelude add panicked");
        }
        run
    }

    fn add_stream(&mut self, scripted: bool) -> Result<(), Violation> {
        let uid = {
            let mut w = self.world.borrow_mut();
            w.cells.push(Cell {
                scripted,
                avail: VecDeque::new(),
                closed: false,
                ended: false,
                dropped: false,
                waker: None,
                handed: 0,
                polled_after_end: false,
                last: Last::NeverPolled,
            });
            w.cells.len() - 1
        };
        self.produced.push(0);
        self.delivered.push(0);
        if scripted {
            self.logical.push(uid);
            for row in self.wait.iter_mut() {
                row.push(0);
            }
            self.wait.push(vec![0; self.logical.len()]);
        }
        let s = Scripted { uid, w: self.world.clone() };
        let reader = &mut self.reader;
        if catch_unwind(AssertUnwindSafe(|| reader.add(s))).is_err() {
            return Err(viol("no_panic", None, "MultiReader::add panicked".into()));
        }
        self.shadow.add(uid as u16);
        Ok(())
    }

    fn wake(&mut self, uid: usize, w: Option<Waker>) -> Result<(), Violation> {
        if let Some(wk) = w {
            let before = self.counter.0.load(Ordering::SeqCst);
            if catch_unwind(AssertUnwindSafe(|| wk.wake())).is_err() {
                return Err(viol("no_panic", None, "the waker handed to a stream panicked".into()));
            }
            self.shadow.wake(uid as u16);
            if self.counter.0.load(Ordering::SeqCst) == before {
                return Err(viol(
                    "wake_reaches_task",
                    Some((self, uid)),
                    format!("stream uid {} woke the waker it was polled with, the waker of the polling task was not woken", uid),
                ));
            }
        }
        Ok(())
    }

    fn apply(&mut self, op: Op) -> Result<(), Violation> {
        match op {
            Op::Ready(i) => {
                let uid = self.logical[i as usize];
                let wk = {
                    let mut w = self.world.borrow_mut();
                    let c = &mut w.cells[uid];
                    c.avail.push_back(self.produced[uid]);
                    let wk = c.waker.take();
                    if wk.is_some() {
                        c.last = Last::Woken;
                    }
                    wk
                };
                self.produced[uid] += 1;
                self.wake(uid, wk)?;
            }
            Op::Close(i) => {
                let uid = self.logical[i as usize];
                let wk = {
                    let mut w = self.world.borrow_mut();
                    let c = &mut w.cells[uid];
                    c.closed = true;
                    let wk = c.waker.take();
                    if wk.is_some() {
                        c.last = Last::Woken;
                    }
                    wk
                };
                self.wake(uid, wk)?;
            }
            Op::Add => {
                self.adds += 1;
                self.add_stream(true)?;
            }
            Op::Poll => self.poll()?,
        }
        // state invariants
        let bad = {
            let w = self.world.borrow();
            w.cells.iter().enumerate().find_map(|(uid, c)| {
                if c.dropped && !c.ended {
                    Some(("no_live_stream_dropped", Some(uid), format!("stream uid {} was dropped by the reader although it had not ended ({} items still available)", uid, c.avail.len())))
                } else if c.polled_after_end {
                    Some(("no_poll_after_end", None, format!("stream uid {} was polled after it returned None", uid)))
                } else {
                    None
                }
            })
        };
        if let Some((law, uid, text)) = bad {
            return Err(viol(law, uid.map(|u| (&*self, u)), text));
        }
        Ok(())
    }

    fn poll(&mut self) -> Result<(), Violation> {
        // what each stream will do when polled (before the poll)
        let behaviour: Vec<u8> = {
            let mut w = self.world.borrow_mut();
            w.poll_log.clear();
            w.inner_polls = 0;
            w.cells.iter().map(|c| if !c.avail.is_empty() { 0 } else if c.closed { 1 } else { 2 }).collect()
        };
        let (pred_log, pred) = self.shadow.poll(|uid| behaviour[uid as usize]);

        let reader = &mut self.reader;
        let waker = self.waker.clone();
        let res = catch_unwind(AssertUnwindSafe(|| {
            let mut cx = Context::from_waker(&waker);
            Pin::new(reader).poll_next(&mut cx)
        }));
        let res = match res {
            Ok(r) => r,
            Err(p) => {
                let msg = p.downcast_ref::<String>().cloned().or_else(|| p.downcast_ref::<&str>().map(|s| s.to_string())).unwrap_or_default();
                if msg.contains(RUNAWAY) {
                    return Err(viol("terminates", None, "one call of poll_next polled the inner streams more than 8x(streams+8) times".into()));
                }
                return Err(viol("no_panic", None, format!("MultiReader::poll_next panicked: {}", msg)));
            }
        };
        let log = {
            let w = self.world.borrow();
            self.total_inner += w.poll_log.len() as u64;
            w.poll_log.clone()
        };
        let obs = match &res {
            Poll::Ready(Some((uid, _))) => Pred::Item(*uid),
            Poll::Ready(None) => Pred::End,
            Poll::Pending => Pred::Pending,
        };
        if obs != pred || log != pred_log {
            self.diverged = true;
        }

        match res {
            Poll::Ready(Some((uid, seq))) => {
                let uid = uid as usize;
                if seq != self.delivered[uid] {
                    return Err(viol("exactly_once_in_order", None, format!("stream uid {} delivered item #{} where #{} was due", uid, seq, self.delivered[uid])));
                }
                self.delivered[uid] += 1;
                self.check_handed()?;
                // fairness
                let me = self.logical.iter().position(|u| *u == uid);
                if let Some(me) = me {
                    let waiting: Vec<(usize, usize)> = {
                        let w = self.world.borrow();
                        self.logical.iter().enumerate().filter(|(t, u)| *t != me && !w.cells[**u].ended && !w.cells[**u].avail.is_empty()).map(|(t, u)| (t, *u)).collect()
                    };
                    for (t, tuid) in waiting {
                        self.wait[t][me] += 1;
                        if self.wait[t][me] > FAIR_BOUND {
                            return Err(viol(
                                "no_starvation",
                                Some((self, tuid)),
                                format!("stream uid {} had an item available while stream uid {} was returned {} times", tuid, uid, self.wait[t][me]),
                            ));
                        }
                    }
                    for x in self.wait[me].iter_mut() {
                        *x = 0;
                    }
                }
            }
            Poll::Ready(None) => {
                self.check_handed()?;
                let bad = {
                    let w = self.world.borrow();
                    w.cells.iter().enumerate().find(|(_, c)| !c.ended).map(|(uid, c)| {
                        (uid, format!("poll_next returned Ready(None) although stream uid {} has not ended (available {}, closed {})", uid, c.avail.len(), c.closed))
                    })
                };
                if let Some((uid, text)) = bad {
                    return Err(viol("end_only_when_all_streams_ended", Some((&*self, uid)), text));
                }
            }
            Poll::Pending => {
                self.check_handed()?;
                let bad = {
                    let w = self.world.borrow();
                    if let Some((uid, _)) = w.cells.iter().enumerate().find(|(_, c)| !c.ended && !c.avail.is_empty()) {
                        Some(("pending_only_if_none_ready", Some(uid), format!("poll_next returned Pending although stream uid {} has an item available", uid)))
                    } else if let Some((uid, c)) = w.cells.iter().enumerate().find(|(_, c)| !c.ended && c.waker.is_none()) {
                        Some(("pending_implies_waker_registered", Some(uid), format!("poll_next returned Pending but stream uid {} (closed {}) holds no waker: its next item or its end cannot wake the task", uid, c.closed)))
                    } else if w.cells.iter().all(|c| c.ended) {
                        Some(("pending_with_no_streams", None, "poll_next returned Pending although every stream has ended".to_string()))
                    } else {
                        None
                    }
                };
                if let Some((law, uid, text)) = bad {
                    return Err(viol(law, uid.map(|u| (&*self, u)), text));
                }
            }
        }
        Ok(())
    }

    fn check_handed(&self) -> Result<(), Violation> {
        let w = self.world.borrow();
        for (uid, c) in w.cells.iter().enumerate() {
            if c.handed != self.delivered[uid] {
                return Err(viol(
                    "item_taken_is_returned",
                    None,
                    format!("stream uid {} handed {} items to the reader, the caller received {}", uid, c.handed, self.delivered[uid]),
                ));
            }
        }
        Ok(())
    }

    fn state(&self, ops: Vec<Op>) -> State {
        let w = self.world.borrow();
        let mut key = vec![];
        if self.diverged {
            key.push(0xff);
            for op in &ops {
                key.extend_from_slice(match op {
                    Op::Ready(i) => [0, *i],
                    Op::Close(i) => [1, *i],
                    Op::Add => [2, 0],
                    Op::Poll => [3, 0],
                }.as_slice());
            }
        } else {
            key.push(0);
            // fillers: one bit each (has waker <=> has been polled)
            let mut bits = 0u8;
            let mut n = 0;
            for c in w.cells.iter().filter(|c| !c.scripted) {
                bits = (bits << 1) | (c.waker.is_some() as u8);
                n += 1;
                if n % 8 == 0 {
                    key.push(bits);
                    bits = 0;
                }
            }
            key.push(bits);
            for uid in &self.logical {
                let c = &w.cells[*uid];
                key.push(c.avail.len() as u8);
                key.push(self.produced[*uid]);
                key.push(self.delivered[*uid]);
                key.push((c.closed as u8) | (c.ended as u8) << 1 | (c.dropped as u8) << 2 | (c.waker.is_some() as u8) << 3 | (c.last as u8) << 4);
                key.push(self.shadow.key_of(*uid as u16).map(|k| k as u8).unwrap_or(0xff));
            }
            for row in &self.wait {
                key.extend_from_slice(row);
            }
            key.push(self.adds);
            self.shadow.encode(&mut key);
        }
        State {
            ops,
            key,
            scripted: self.logical.iter().map(|u| (self.produced[*u], w.cells[*u].closed)).collect(),
            adds: self.adds,
            diverged: self.diverged,
            inner_polls: self.total_inner,
        }
    }
}

/// Replay `ops` on a fresh reader. `Err` carries the first violation.
pub fn execute(cfg: &Config, ops: &[Op]) -> Result<State, Violation> {
    let mut run = Run::new(cfg);
    for op in ops {
        run.apply(*op)?;
    }
    Ok(run.state(ops.to_vec()))
}

fn enabled(cfg: &Config, s: &State) -> Vec<Op> {
    let mut v = vec![Op::Poll];
    for (i, (produced, closed)) in s.scripted.iter().enumerate() {
        if !closed {
            if *produced < cfg.script_len {
                v.push(Op::Ready(i as u8));
            }
            v.push(Op::Close(i as u8));
        }
    }
    if s.adds < cfg.max_adds {
        v.push(Op::Add);
    }
    v
}

fn ops_json(ops: &[Op]) -> Vec<String> {
    ops.iter().map(|o| o.text()).collect()
}

pub fn run(ctx: &Ctx) {
    let all = configs();
    let plan = plan(ctx.quick());
    // wall-clock caps inside the engine: per configuration and for the whole leg
    let per_config_s = ctx.tier.pick(15.0, 200.0);
    let leg_deadline = Instant::now() + std::time::Duration::from_secs_f64(ctx.tier.pick(40.0, 780.0));
    for (ci, depth) in plan {
        let cfg = &all[ci];
        let t0 = Instant::now();
        let init = match execute(cfg, &[]) {
            Ok(s) => s,
            Err(v) => {
                ctx.violation("multireader", &v.signature, json!({"leg": "multireader", "config": cfg.name, "ops": [], "explanation": v.text}));
                continue;
            }
        };
        // a cut (state cap or deadline) is reported as non-exhaustive
        let max_states: u64 = ctx.tier.pick(2_000_000, 8_000_000);
        let inner = AtomicUsize::new(0);
        let diverged = AtomicUsize::new(0);
        let deadline = std::cmp::min(Instant::now() + std::time::Duration::from_secs_f64(per_config_s), leg_deadline);
        let timed_out = std::sync::atomic::AtomicBool::new(false);
        let stats = vcommon::space::bfs(
            init,
            |s: &State| {
                if Instant::now() > deadline {
                    timed_out.store(true, Ordering::Relaxed);
                    return vec![];
                }
                enabled(cfg, s)
            },
            |s: &State, op: &Op| {
                let mut ops = s.ops.clone();
                ops.push(*op);
                match execute(cfg, &ops) {
                    Ok(s2) => {
                        inner.fetch_add(s2.inner_polls as usize, Ordering::Relaxed);
                        if s2.diverged {
                            diverged.fetch_add(1, Ordering::Relaxed);
                        }
                        Ok(s2)
                    }
                    Err(v) => Err(v.signature),
                }
            },
            |s: &State| s.key.clone(),
            |_s: &State| Ok(()),
            depth,
            max_states,
            vcommon::ncpu(),
        );
        let cut = timed_out.load(Ordering::Relaxed) || stats.capped;
        let mut samples: Vec<J> = stats.sample_paths.iter().map(|p| json!({"config": cfg.name, "ops": ops_json(p)})).collect();
        samples.truncate(2);
        for (path, sig) in &stats.violations {
            let text = match execute(cfg, path) {
                Err(v) => v.text,
                Ok(_) => "not reproduced on re-execution".to_string(),
            };
            ctx.violation(
                "multireader",
                sig,
                json!({"leg": "multireader", "config": cfg.name, "ops": ops_json(path), "explanation": text,
                       "prelude": cfg.prelude, "scripted_slab_indices": cfg.scripted}),
            );
        }
        ctx.add_leg(Leg {
            name: format!("multireader_{}", cfg.name),
            engine: "E2-space".into(),
            states: stats.states,
            transitions: stats.transitions,
            evaluations: stats.transitions,
            distinct_nontrivial: stats.states.saturating_sub(1),
            rule: "distinct (reference state, rotation state) pairs reached by a non-empty history; every transition re-executes the whole history on a fresh real MultiReader".into(),
            samples,
            exhaustive: !cut,
            bounds: json!({"config": cfg.name, "prelude_streams": cfg.prelude, "scripted_slab_indices": cfg.scripted, "max_adds": cfg.max_adds,
                "items_per_stream": cfg.script_len, "depth": depth, "depth_reached": stats.depth_reached, "fixpoint": stats.fixpoint && !cut,
                "cut_by_cap": cut, "fair_bound": FAIR_BOUND,
                "transitions_where_reader_deviated_from_rotation_shadow": diverged.load(Ordering::Relaxed),
                "inner_stream_polls_replayed": inner.load(Ordering::Relaxed)}),
            wall_s: t0.elapsed().as_secs_f64(),
        });
    }
}

pub fn replay(d: &J) -> Option<(String, J)> {
    let name = d["config"].as_str()?;
    let cfg = configs().into_iter().find(|c| c.name == name)?;
    let ops: Vec<Op> = d["ops"].as_array()?.iter().filter_map(|o| o.as_str().and_then(Op::parse)).collect();
    match execute(&cfg, &ops) {
        Err(v) => Some((v.signature, json!({"leg": "multireader", "config": name, "ops": ops_json(&ops), "explanation": v.text}))),
        Ok(_) => None,
    }
}

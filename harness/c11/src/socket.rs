//! Leg (c), engine E1: the real `RemoteTask` over an in-memory web socket
//! (`tokio::io::duplex` + `ratchet::WebSocket::from_upgraded`), polled by the harness.
//!
//! Actors: the peer (ratchet client role, reader and writer polled by the harness), two agents
//! (`/n`, `/n2`, created when the task asks for them through `FindNode`; `/x` does not exist),
//! three downlinks on overlapping addresses (`/n`,`l`), (`/n`,`l2`), (`/n2`,`l`) and one send-only
//! commander. Every source sends uniquely tagged messages; the peer sends envelopes for every
//! registered address, for an unregistered one, for an unknown node, `@unlinked` with and without
//! a body, and (variants) an invalid or a binary frame.
//!
//! Explored (deviation-bounded): the order of {poll task, poll peer reader/writer, peer sends its
//! next frame, source i sends its next message, attach, detach}. Local endpoints drain eagerly and
//! `FindNode` is answered eagerly (not explored).
//!
//! Oracle (at the end of each execution):
//!  * every text frame the peer read parses to exactly one message a source wrote (or to the
//!    `@unlinked(..)@nodeNotFound` answer for the unknown node), no duplicates, each source's
//!    messages in its order; at quiescence (before teardown) none is missing;
//!  * every message a downlink / agent read was sent by the peer to exactly its (node, lane) /
//!    node, unchanged and in the peer's order; frames the peer sent after the attachment was
//!    confirmed are all there at quiescence; the frame for the unregistered address and the
//!    invalid/binary frame reach nobody;
//!  * an invalid (binary) frame ends the task with a protocol-error close frame; a stop ends it
//!    with a going-away close frame; no panic.

use bytes::BytesMut;
use futures::task::noop_waker;
use futures::{Sink, Stream};
use ratchet::{CloseCode, Message, NoExt, Role, WebSocket, WebSocketConfig};
use std::cell::RefCell;
use std::num::NonZeroUsize;
use std::pin::Pin;
use std::rc::Rc;
use std::task::{Context, Poll};
use std::time::Duration;
use swimos_api::address::RelativeAddress;
use swimos_messages::protocol::{
    Notification, Operation, RawRequestMessageDecoder, RawRequestMessageEncoder, RawResponseMessageDecoder, RawResponseMessageEncoder,
    RequestMessage, ResponseMessage,
};
use swimos_messages::remote_protocol::{AttachClient, FindNode, LinkError, NoSuchAgent, NodeConnectionRequest};
use swimos_messages::warp::{peel_envelope_header_str, RawEnvelope};
use swimos_remote::RemoteTask;
use swimos_utilities::byte_channel::{byte_channel, BudgetedFutureExt, ByteReader, ByteWriter};
use swimos_utilities::trigger;
use tokio::sync::{mpsc, oneshot};
use tokio_util::codec::{FramedRead, FramedWrite};
use uuid::Uuid;
use vcommon::sched::{Outcome, Subject, World};

const REMOTE_ID: Uuid = Uuid::from_u128(1484);
const SRC_ID: Uuid = Uuid::from_u128(77);
const CHAN: usize = 4096;

#[derive(Clone, Copy, Debug, PartialEq, Eq)]
pub enum Variant {
    Valid,
    InvalidFrame,
    BinaryFrame,
}

#[derive(Clone, Debug)]
pub struct SockCfg {
    pub buf: usize,
    pub variant: Variant,
    /// The reduced scenario (2 downlinks, 1 agent source, 4 peer frames; only downlink 0 may detach
    /// early, stop only at the end) used for the higher deviation bounds.
    pub core: bool,
    /// Two downlinks on the same (node, lane) of one socket plus one on another lane; every frame
    /// of the peer is for the shared address; either sibling may detach at any point.
    pub siblings: bool,
}

thread_local! {
    /// set from the configuration when a world is built (peer_frames is also called for evidence)
    static SIBLINGS: std::cell::Cell<bool> = const { std::cell::Cell::new(false) };
}

#[derive(Clone, Debug)]
enum PeerFrame {
    Text(&'static str),
    Binary,
}

/// What the peer sends: (frame, addressee description) - see `expectations`.
fn peer_frames(v: Variant, core: bool) -> Vec<PeerFrame> {
    if v == Variant::Valid && core && SIBLINGS.with(|s| s.get()) {
        return vec![
            PeerFrame::Text("@event(node:\"/n\",lane:l) \"p0\""),
            PeerFrame::Text("@event(node:\"/n\",lane:l) \"p1\""),
            PeerFrame::Text("@event(node:\"/n\",lane:l2) \"p2\""),
            PeerFrame::Text("@event(node:\"/n\",lane:l) \"p3\""),
        ];
    }
    let bad = match v {
        Variant::Valid => None,
        Variant::InvalidFrame => Some(PeerFrame::Text("@event(node:\"/n\",lane:l")),
        Variant::BinaryFrame => Some(PeerFrame::Binary),
    };
    if core {
        let mut f = vec![PeerFrame::Text("@event(node:\"/n\",lane:l) \"p0\""), PeerFrame::Text("@event(node:\"/n\",lane:l2) \"p1\"")];
        f.extend(bad);
        f.extend([PeerFrame::Text("@command(node:\"/n\",lane:l) \"p2\""), PeerFrame::Text("@unlinked(node:\"/n\",lane:l2)@laneNotFound")]);
        return f;
    }
    let mut f = vec![
        PeerFrame::Text("@event(node:\"/n\",lane:l) \"p0\""),
        PeerFrame::Text("@event(node:\"/n\",lane:l2) \"p1\""),
        PeerFrame::Text("@command(node:\"/n\",lane:l) \"p2\""),
        PeerFrame::Text("@event(node:\"/n2\",lane:l) \"p3\""),
        PeerFrame::Text("@command(node:\"/n2\",lane:l2) \"p4\""),
        PeerFrame::Text("@event(node:\"/zz\",lane:l) \"p5\""),
    ];
    f.extend(bad);
    f.extend([
        PeerFrame::Text("@link(node:\"/x\",lane:l)"),
        PeerFrame::Text("@unlinked(node:\"/n\",lane:l2)@laneNotFound"),
        PeerFrame::Text("@event(node:\"/n\",lane:l) \"p8\""),
        PeerFrame::Text("@unlinked(node:\"/n\",lane:l)"),
        PeerFrame::Text("@sync(node:\"/n\",lane:l)"),
    ]);
    f
}

/// (kind, node, lane, body) of a text frame, by the repository's own peeler.
fn parse(frame: &str) -> Option<(String, String, String, String)> {
    match peel_envelope_header_str(frame).ok()? {
        RawEnvelope::Link { node_uri, lane_uri, body, .. } => Some(("link".into(), node_uri.into(), lane_uri.into(), body.to_string())),
        RawEnvelope::Sync { node_uri, lane_uri, body, .. } => Some(("sync".into(), node_uri.into(), lane_uri.into(), body.to_string())),
        RawEnvelope::Unlink { node_uri, lane_uri, body } => Some(("unlink".into(), node_uri.into(), lane_uri.into(), body.to_string())),
        RawEnvelope::Command { node_uri, lane_uri, body } => Some(("command".into(), node_uri.into(), lane_uri.into(), body.to_string())),
        RawEnvelope::Linked { node_uri, lane_uri, body, .. } => Some(("linked".into(), node_uri.into(), lane_uri.into(), body.to_string())),
        RawEnvelope::Synced { node_uri, lane_uri, body } => Some(("synced".into(), node_uri.into(), lane_uri.into(), body.to_string())),
        RawEnvelope::Event { node_uri, lane_uri, body } => Some(("event".into(), node_uri.into(), lane_uri.into(), body.to_string())),
        RawEnvelope::Unlinked { node_uri, lane_uri, body } => Some(("unlinked".into(), node_uri.into(), lane_uri.into(), body.to_string())),
        _ => None,
    }
}

type Msg = (String, String, String, String); // kind, node, lane, body

#[derive(Debug, Clone, PartialEq)]
enum PeerObs {
    Text(String),
    Close(Option<(CloseCode, Option<String>)>),
    Other(String),
    Error(String),
}

#[derive(Default)]
struct Shared {
    credits: usize,
    writer_busy: bool,
    written: usize,
    write_errors: Vec<String>,
    peer_log: Vec<PeerObs>,
}

struct Downlink {
    node: &'static str,
    lane: &'static str,
    script: Vec<&'static str>,
    sent: usize,
    tx: Option<FramedWrite<ByteWriter, RawRequestMessageEncoder>>,
    rx: Option<FramedRead<ByteReader, RawResponseMessageDecoder>>,
    done: Option<oneshot::Receiver<Result<(), LinkError>>>,
    attach_fired: bool,
    confirmed_at: Option<usize>,
    detached: bool,
    received: Vec<Msg>,
    closed_seen: bool,
}

struct Commander {
    present: bool,
    script: Vec<(&'static str, &'static str, &'static str)>,
    sent: usize,
    tx: Option<FramedWrite<ByteWriter, RawRequestMessageEncoder>>,
    done: Option<oneshot::Receiver<Result<(), LinkError>>>,
    attach_fired: bool,
    confirmed: bool,
    detached: bool,
}

struct Agent {
    node: &'static str,
    script: Vec<(&'static str, &'static str)>, // (lane, body)
    sent: usize,
    tx: Option<FramedWrite<ByteWriter, RawResponseMessageEncoder>>,
    rx: Option<FramedRead<ByteReader, RawRequestMessageDecoder>>,
    resolved: u32,
    received: Vec<Msg>,
}

#[derive(Clone, Default)]
struct Snapshot {
    taken: bool,
    peer_log_len: usize,
    dl_received: Vec<usize>,
    agent_received: Vec<usize>,
    dl_live: Vec<bool>,
    remote_alive: bool,
    stopped: bool,
}

pub struct SockWorld {
    cfg: SockCfg,
    trace: bool,
    remote: Subject<()>,
    peer_reader: Subject<()>,
    peer_writer: Subject<()>,
    shared: Rc<RefCell<Shared>>,
    frames: Vec<PeerFrame>,
    handed: usize, // frames handed to the peer writer
    attach_tx: Option<mpsc::Sender<AttachClient>>,
    find_rx: mpsc::Receiver<FindNode>,
    stop_tx: Option<trigger::Sender>,
    stopped: bool,
    downlinks: Vec<Downlink>,
    commander: Commander,
    agents: Vec<Agent>,
    unknown_finds: Vec<String>,
    sent_log: Vec<(String, Msg)>, // (source, message) in the order the sources wrote
    snapshot: Snapshot,
    panicked: Option<String>,
    machinery: Vec<String>,
    log: Vec<String>,
}

/// Run harness-side channel operations with a no-op waker and a large byte-channel coop budget (so
/// that a `Pending` always means "nothing there" and never "budget exhausted").
fn noop_cx<R>(mut f: impl FnMut(&mut Context<'_>) -> R) -> R {
    let w = noop_waker();
    let mut cx = Context::from_waker(&w);
    let fut = futures::future::poll_fn(|cx| Poll::Ready(f(cx))).with_budget(NonZeroUsize::new(1 << 20).unwrap());
    let mut fut = std::pin::pin!(fut);
    match std::future::Future::poll(fut.as_mut(), &mut cx) {
        Poll::Ready(r) => r,
        Poll::Pending => unreachable!(),
    }
}

/// Push one item into a framed writer over a byte channel without blocking.
fn send_now<S, I>(sink: &mut S, item: I) -> Result<(), String>
where
    S: Sink<I> + Unpin,
    S::Error: std::fmt::Display,
{
    let mut item = Some(item);
    noop_cx(|cx| {
        match Pin::new(&mut *sink).poll_ready(cx) {
            Poll::Ready(Ok(())) => {}
            Poll::Ready(Err(e)) => return Err(format!("closed: {}", e)),
            Poll::Pending => return Err("BLOCKED".into()),
        }
        Pin::new(&mut *sink).start_send(item.take().expect("once")).map_err(|e| format!("closed: {}", e))?;
        match Pin::new(&mut *sink).poll_flush(cx) {
            Poll::Ready(Ok(())) => Ok(()),
            Poll::Ready(Err(e)) => Err(format!("closed: {}", e)),
            Poll::Pending => Err("BLOCKED".into()),
        }
    })
}

impl SockWorld {
    fn note(&mut self, s: String) {
        if self.trace {
            self.log.push(s);
        }
    }

    fn poll_subject(&mut self, which: u8) {
        let r = std::panic::catch_unwind(std::panic::AssertUnwindSafe(|| match which {
            0 => self.remote.poll(),
            1 => self.peer_reader.poll(),
            _ => self.peer_writer.poll(),
        }));
        if let Err(p) = r {
            let msg = p.downcast_ref::<String>().cloned().or_else(|| p.downcast_ref::<&str>().map(|s| s.to_string())).unwrap_or_else(|| "panic".into());
            if which == 0 {
                self.panicked = Some(msg);
                self.remote.kill();
            } else {
                self.machinery.push(format!("peer task panicked: {}", msg));
                if which == 1 {
                    self.peer_reader.kill();
                } else {
                    self.peer_writer.kill();
                }
            }
        }
    }

    /// Eager environment reactions: answer `FindNode`, observe attach confirmations, drain the
    /// local endpoints.
    fn react(&mut self) {
        loop {
            let mut progress = false;
            while let Ok(FindNode { node, lane, request }) = self.find_rx.try_recv() {
                progress = true;
                match request {
                    NodeConnectionRequest::Warp { promise, .. } => {
                        if let Some(a) = self.agents.iter_mut().find(|a| a.node == node.as_str()) {
                            let (in_tx, in_rx) = byte_channel(NonZeroUsize::new(CHAN).unwrap());
                            let (out_tx, out_rx) = byte_channel(NonZeroUsize::new(CHAN).unwrap());
                            a.rx = Some(FramedRead::new(in_rx, Default::default()));
                            a.tx = Some(FramedWrite::new(out_tx, Default::default()));
                            a.resolved += 1;
                            let _ = promise.send(Ok((in_tx, out_rx)));
                        } else {
                            self.unknown_finds.push(format!("{}", node));
                            let _ = promise.send(Err(NoSuchAgent { node, lane }.into()));
                        }
                    }
                    NodeConnectionRequest::Http { .. } => self.machinery.push("unexpected HTTP FindNode".into()),
                }
            }
            let handed = self.handed;
            for d in self.downlinks.iter_mut() {
                if let Some(done) = d.done.as_mut() {
                    match done.try_recv() {
                        Ok(Ok(())) => {
                            d.confirmed_at = Some(handed);
                            d.done = None;
                            progress = true;
                        }
                        Ok(Err(_)) | Err(oneshot::error::TryRecvError::Closed) => {
                            d.done = None;
                            progress = true;
                        }
                        Err(oneshot::error::TryRecvError::Empty) => {}
                    }
                }
                if let Some(rx) = d.rx.as_mut() {
                    loop {
                        match noop_cx(|cx| Pin::new(&mut *rx).poll_next(cx)) {
                            Poll::Ready(Some(Ok(ResponseMessage { path, envelope, .. }))) => {
                                progress = true;
                                let (k, b) = match envelope {
                                    Notification::Linked => ("linked", "<none>".to_string()),
                                    Notification::Synced => ("synced", "<none>".to_string()),
                                    Notification::Unlinked(None) => ("unlinked", "<none>".to_string()),
                                    Notification::Unlinked(Some(b)) => ("unlinked", String::from_utf8_lossy(&b).into_owned()),
                                    Notification::Event(b) => ("event", String::from_utf8_lossy(&b).into_owned()),
                                };
                                d.received.push((k.into(), path.node.to_string(), path.lane.to_string(), b));
                            }
                            Poll::Ready(Some(Err(_))) | Poll::Ready(None) => {
                                d.closed_seen = true;
                                d.rx = None;
                                break;
                            }
                            Poll::Pending => break,
                        }
                    }
                }
            }
            if let Some(done) = self.commander.done.as_mut() {
                match done.try_recv() {
                    Ok(Ok(())) => {
                        self.commander.confirmed = true;
                        self.commander.done = None;
                        progress = true;
                    }
                    Ok(Err(_)) | Err(oneshot::error::TryRecvError::Closed) => {
                        self.commander.done = None;
                        progress = true;
                    }
                    Err(oneshot::error::TryRecvError::Empty) => {}
                }
            }
            for a in self.agents.iter_mut() {
                if let Some(rx) = a.rx.as_mut() {
                    loop {
                        match noop_cx(|cx| Pin::new(&mut *rx).poll_next(cx)) {
                            Poll::Ready(Some(Ok(RequestMessage { path, envelope, .. }))) => {
                                progress = true;
                                let (k, b) = match envelope {
                                    Operation::Link => ("link", "<none>".to_string()),
                                    Operation::Sync => ("sync", "<none>".to_string()),
                                    Operation::Unlink => ("unlink", "<none>".to_string()),
                                    Operation::Command(b) => ("command", String::from_utf8_lossy(&b).into_owned()),
                                };
                                a.received.push((k.into(), path.node.to_string(), path.lane.to_string(), b));
                            }
                            Poll::Ready(Some(Err(_))) | Poll::Ready(None) => {
                                a.rx = None;
                                break;
                            }
                            Poll::Pending => break,
                        }
                    }
                }
            }
            if !progress {
                break;
            }
        }
    }

    fn fire_sync(&mut self, code: u32) {
        match code {
            0 => self.poll_subject(0),
            1 => self.poll_subject(1),
            2 => self.poll_subject(2),
            3 => {
                // the peer starts writing its next frame
                self.shared.borrow_mut().credits += 1;
                self.handed += 1;
                self.peer_writer.flag.set();
                self.poll_subject(2);
            }
            10..=12 => {
                let i = (code - 10) as usize;
                let d = &mut self.downlinks[i];
                let body = d.script[d.sent];
                d.sent += 1;
                let msg = RequestMessage::command(SRC_ID, RelativeAddress::new(d.node, d.lane), body);
                let r = send_now(d.tx.as_mut().unwrap(), msg);
                let (node, lane) = (d.node, d.lane);
                self.after_send(format!("dl{}", i), ("command".into(), node.into(), lane.into(), body.into()), r);
            }
            13 => {
                let c = &mut self.commander;
                let (node, lane, body) = c.script[c.sent];
                c.sent += 1;
                let msg = RequestMessage::command(SRC_ID, RelativeAddress::new(node, lane), body);
                let r = send_now(c.tx.as_mut().unwrap(), msg);
                self.after_send("cmd".into(), ("command".into(), node.into(), lane.into(), body.into()), r);
            }
            14 | 15 => {
                let i = (code - 14) as usize;
                let a = &mut self.agents[i];
                let (lane, body) = a.script[a.sent];
                a.sent += 1;
                let msg: ResponseMessage<&str, &str, &[u8]> = ResponseMessage::event(SRC_ID, RelativeAddress::new(a.node, lane), body);
                let r = send_now(a.tx.as_mut().unwrap(), msg);
                let node = a.node;
                self.after_send(format!("agent{}", i), ("event".into(), node.into(), lane.into(), body.into()), r);
            }
            20..=22 => {
                let i = (code - 20) as usize;
                let d = &mut self.downlinks[i];
                let (tx_in, rx_in) = byte_channel(NonZeroUsize::new(CHAN).unwrap());
                let (tx_out, rx_out) = byte_channel(NonZeroUsize::new(CHAN).unwrap());
                let (done_tx, done_rx) = oneshot::channel();
                d.rx = Some(FramedRead::new(rx_in, Default::default()));
                d.tx = Some(FramedWrite::new(tx_out, Default::default()));
                d.done = Some(done_rx);
                d.attach_fired = true;
                let req = AttachClient::AttachDownlink {
                    downlink_id: Uuid::from_u128(100 + i as u128),
                    path: RelativeAddress::text(d.node, d.lane),
                    sender: tx_in,
                    receiver: rx_out,
                    done: done_tx,
                };
                if let Some(tx) = &self.attach_tx {
                    if tx.try_send(req).is_err() {
                        self.machinery.push("attach channel full".into());
                    }
                }
            }
            23 => {
                let c = &mut self.commander;
                let (tx_out, rx_out) = byte_channel(NonZeroUsize::new(CHAN).unwrap());
                let (done_tx, done_rx) = oneshot::channel();
                c.tx = Some(FramedWrite::new(tx_out, Default::default()));
                c.done = Some(done_rx);
                c.attach_fired = true;
                let req = AttachClient::OneWay { agent_id: Uuid::from_u128(200), path: None, receiver: rx_out, done: done_tx };
                if let Some(tx) = &self.attach_tx {
                    if tx.try_send(req).is_err() {
                        self.machinery.push("attach channel full".into());
                    }
                }
            }
            30..=32 => {
                let d = &mut self.downlinks[(code - 30) as usize];
                d.detached = true;
                d.tx = None;
                d.rx = None;
            }
            33 => {
                self.commander.detached = true;
                self.commander.tx = None;
            }
            40 => {
                self.stopped = true;
                if let Some(s) = self.stop_tx.take() {
                    s.trigger();
                }
            }
            _ => self.machinery.push(format!("unknown event {}", code)),
        }
        self.react();
    }

    fn after_send(&mut self, src: String, msg: Msg, r: Result<(), String>) {
        match r {
            Ok(()) => self.sent_log.push((src, msg)),
            Err(e) if e == "BLOCKED" => self.machinery.push(format!("send of {} blocked on a {}-byte channel", src, CHAN)),
            Err(_) => {
                // the task has dropped its end (it ended); the message never entered the channel
            }
        }
    }

    fn teardown_only(&self, en: &[u32]) -> bool {
        en.iter().all(|c| (30..=40).contains(c))
    }
}

impl World for SockWorld {
    type Cfg = SockCfg;

    fn new(cfg: &SockCfg, trace: bool) -> Self {
        let (stop_tx, stop_rx) = trigger::trigger();
        let (attach_tx, attach_rx) = mpsc::channel(8);
        let (find_tx, find_rx) = mpsc::channel(8);
        let (server, client) = tokio::io::duplex(cfg.buf);
        let config = WebSocketConfig::default();
        let server = WebSocket::from_upgraded(config, server, Some(NoExt), BytesMut::new(), Role::Server);
        let client = WebSocket::from_upgraded(config, client, Some(NoExt), BytesMut::new(), Role::Client);
        let remote = RemoteTask::new(REMOTE_ID, stop_rx, server, attach_rx, Some(find_tx), NonZeroUsize::new(8).unwrap(), Duration::from_secs(5));
        let shared = Rc::new(RefCell::new(Shared::default()));
        SIBLINGS.with(|s| s.set(cfg.siblings));
        let frames = peer_frames(cfg.variant, cfg.core);
        let (mut ws_tx, mut ws_rx) = client.split().expect("split");

        let sh = shared.clone();
        let reader = async move {
            let mut buf = BytesMut::new();
            loop {
                buf.clear();
                let r = ws_rx.read(&mut buf).await;
                let mut s = sh.borrow_mut();
                match r {
                    Ok(Message::Text) => s.peer_log.push(PeerObs::Text(String::from_utf8_lossy(&buf).into_owned())),
                    Ok(Message::Close(r)) => {
                        s.peer_log.push(PeerObs::Close(r.map(|r| (r.code, r.description))));
                        break;
                    }
                    Ok(other) => s.peer_log.push(PeerObs::Other(format!("{:?}", other))),
                    Err(e) => {
                        s.peer_log.push(PeerObs::Error(format!("{}", e)));
                        break;
                    }
                }
            }
        };
        let sh = shared.clone();
        let fr = frames.clone();
        let writer = async move {
            for f in fr {
                futures::future::poll_fn(|_| {
                    let mut s = sh.borrow_mut();
                    if s.credits > 0 {
                        s.credits -= 1;
                        s.writer_busy = true;
                        Poll::Ready(())
                    } else {
                        Poll::Pending
                    }
                })
                .await;
                let r = match f {
                    PeerFrame::Text(t) => ws_tx.write_text(t).await,
                    PeerFrame::Binary => ws_tx.write_binary([1u8, 2, 3]).await,
                };
                let mut s = sh.borrow_mut();
                s.writer_busy = false;
                s.written += 1;
                if let Err(e) = r {
                    s.write_errors.push(format!("{}", e));
                }
            }
            // keep the sending half open
            futures::future::pending::<()>().await;
        };
        let peer_writer = Subject::new(tokio::task::unconstrained(writer));
        peer_writer.flag.clear();
        let dl = |node, lane, script: Vec<&'static str>| Downlink {
            node,
            lane,
            script,
            sent: 0,
            tx: None,
            rx: None,
            done: None,
            attach_fired: false,
            confirmed_at: None,
            detached: false,
            received: vec![],
            closed_seen: false,
        };
        SockWorld {
            cfg: cfg.clone(),
            trace,
            remote: Subject::new(tokio::task::unconstrained(remote.run().budgeted())),
            peer_reader: Subject::new(tokio::task::unconstrained(reader)),
            peer_writer,
            shared,
            frames,
            handed: 0,
            attach_tx: Some(attach_tx),
            find_rx,
            stop_tx: Some(stop_tx),
            stopped: false,
            downlinks: if cfg.siblings {
                vec![dl("/n", "l", vec!["d00"]), dl("/n", "l", vec!["d10"]), dl("/n", "l2", vec![])]
            } else if cfg.core {
                vec![dl("/n", "l", vec!["d00"]), dl("/n", "l2", vec!["d10"])]
            } else {
                vec![dl("/n", "l", vec!["d00", "d01"]), dl("/n", "l2", vec!["d10"]), dl("/n2", "l", vec!["d20"])]
            },
            commander: Commander {
                present: !cfg.core,
                script: vec![("/n", "l", "k0"), ("/n2", "l", "k1")],
                sent: 0,
                tx: None,
                done: None,
                attach_fired: false,
                confirmed: false,
                detached: false,
            },
            agents: vec![
                Agent { node: "/n", script: if cfg.core { vec![("l", "a00")] } else { vec![("l", "a00"), ("l2", "a01")] }, sent: 0, tx: None, rx: None, resolved: 0, received: vec![] },
                Agent { node: "/n2", script: if cfg.core { vec![] } else { vec![("l2", "a10")] }, sent: 0, tx: None, rx: None, resolved: 0, received: vec![] },
            ],
            unknown_finds: vec![],
            sent_log: vec![],
            snapshot: Snapshot::default(),
            panicked: None,
            machinery: vec![],
            log: vec![],
        }
    }

    fn enabled(&mut self) -> Vec<u32> {
        let mut en = vec![];
        if self.remote.runnable() {
            en.push(0);
        }
        if self.peer_reader.runnable() {
            en.push(1);
        }
        let (busy, written) = {
            let s = self.shared.borrow();
            (s.writer_busy, s.written)
        };
        if self.peer_writer.runnable() && busy {
            en.push(2);
        }
        // attachments
        if self.remote.alive() {
            for (i, d) in self.downlinks.iter().enumerate() {
                if !d.attach_fired {
                    en.push(20 + i as u32);
                }
            }
            if self.commander.present && !self.commander.attach_fired {
                en.push(23);
            }
        }
        // the peer hands over its next frame once the previous one is written
        if !busy && written == self.handed && self.handed < self.frames.len() && self.peer_writer.alive() {
            en.push(3);
        }
        for (i, d) in self.downlinks.iter().enumerate() {
            if d.confirmed_at.is_some() && !d.detached && d.sent < d.script.len() {
                en.push(10 + i as u32);
            }
        }
        if self.commander.confirmed && !self.commander.detached && self.commander.sent < self.commander.script.len() {
            en.push(13);
        }
        for (i, a) in self.agents.iter().enumerate() {
            if a.tx.is_some() && a.sent < a.script.len() {
                en.push(14 + i as u32);
            }
        }
        // teardown events: detach, stop. In the core scenario only downlink 0 may detach while
        // other events are enabled; the rest of the teardown happens at the end.
        let idle = en.is_empty();
        let core = self.cfg.core;
        for (i, d) in self.downlinks.iter().enumerate() {
            if d.attach_fired && !d.detached && (idle || !core || i == 0 || (self.cfg.siblings && i == 1)) {
                en.push(30 + i as u32);
            }
        }
        if self.commander.attach_fired && !self.commander.detached {
            en.push(33);
        }
        if !self.stopped && (idle || !core) {
            en.push(40);
        }
        if !self.snapshot.taken && self.teardown_only(&en) {
            self.snapshot = Snapshot {
                taken: true,
                peer_log_len: self.shared.borrow().peer_log.len(),
                dl_received: self.downlinks.iter().map(|d| d.received.len()).collect(),
                agent_received: self.agents.iter().map(|a| a.received.len()).collect(),
                dl_live: self.downlinks.iter().map(|d| d.confirmed_at.is_some() && !d.detached).collect(),
                remote_alive: self.remote.alive(),
                stopped: self.stopped,
            };
        }
        en
    }

    fn label(&self, code: u32) -> String {
        match code {
            0 => "poll(remote)".into(),
            1 => "poll(peer reader)".into(),
            2 => "poll(peer writer)".into(),
            3 => format!("peer sends frame {}", self.handed),
            10..=12 => format!("downlink {} sends", code - 10),
            13 => "commander sends".into(),
            14 | 15 => format!("agent {} sends", code - 14),
            20..=22 => format!("attach downlink {}", code - 20),
            23 => "attach commander".into(),
            30..=32 => format!("detach downlink {}", code - 30),
            33 => "detach commander".into(),
            40 => "stop".into(),
            c => format!("?{}", c),
        }
    }

    fn fire(&mut self, code: u32) -> impl std::future::Future<Output = ()> {
        let l = if self.trace { Some(self.label(code)) } else { None };
        self.fire_sync(code);
        if let Some(l) = l {
            let s = format!("{} | peer_log={} sent={} remote(alive={},run={},polls={}) reader(alive={},run={}) writer(alive={},run={},busy={},written={})", l, self.shared.borrow().peer_log.len(), self.sent_log.len(),
                self.remote.alive(), self.remote.runnable(), self.remote.polls, self.peer_reader.alive(), self.peer_reader.runnable(), self.peer_writer.alive(), self.peer_writer.runnable(),
                self.shared.borrow().writer_busy, self.shared.borrow().written);
            self.note(s);
        }
        std::future::ready(())
    }

    fn finish(self) -> Outcome {
        let mut viol: Vec<(String, String)> = vec![];
        let mut v = |sig: String, expl: String| {
            if !viol.iter().any(|x| x.0 == sig) {
                viol.push((sig, expl));
            }
        };
        let shared = self.shared.borrow();
        let variant = self.cfg.variant;
        if let Some(p) = &self.panicked {
            v("leg=socket law=no_panic".into(), format!("RemoteTask panicked: {}", p));
        }
        for m in &self.machinery {
            v(format!("leg=socket MACHINERY {}", m), m.clone());
        }

        // ---- O1: what the peer read
        let mut expected_from: Vec<(String, Msg)> = self.sent_log.clone();
        let mut per_source_next: std::collections::BTreeMap<String, usize> = Default::default();
        let mut seen_idx: Vec<bool> = vec![false; expected_from.len()];
        let mut not_found_seen = 0;
        let mut close: Option<&PeerObs> = None;
        for (pos, obs) in shared.peer_log.iter().enumerate() {
            match obs {
                PeerObs::Text(t) => match parse(t) {
                    None => v("leg=socket law=peer_frame_is_envelope".into(), format!("the peer read a text frame that is not an envelope: {:?}", t)),
                    Some(m) => {
                        if m == ("unlinked".to_string(), "/x".to_string(), "l".to_string(), "@nodeNotFound".to_string()) {
                            not_found_seen += 1;
                            if not_found_seen > 1 {
                                v("leg=socket law=peer_frame_written_once kind=unlinked".into(), "nodeNotFound answer seen twice".into());
                            }
                            continue;
                        }
                        match expected_from.iter().position(|(_, e)| *e == m) {
                            None => v(
                                format!("leg=socket law=peer_frame_was_written_by_a_source kind={}", m.0),
                                format!("frame #{} {:?} read by the peer matches no message written by a local source", pos, t),
                            ),
                            Some(i) => {
                                if seen_idx[i] {
                                    v(format!("leg=socket law=peer_frame_written_once kind={}", m.0), format!("frame {:?} read twice by the peer", t));
                                }
                                seen_idx[i] = true;
                                let src = expected_from[i].0.clone();
                                // order within the source: index of this message among the source's messages
                                let k = expected_from.iter().take(i).filter(|(s, _)| *s == src).count();
                                let next = per_source_next.entry(src.clone()).or_insert(0);
                                if k != *next {
                                    v(
                                        "leg=socket law=source_order_preserved".into(),
                                        format!("source {}: message #{} ({:?}) left the socket where #{} was due", src, k, m, next),
                                    );
                                }
                                *next = k + 1;
                            }
                        }
                    }
                },
                PeerObs::Close(_) => close = Some(obs),
                PeerObs::Other(o) => v("leg=socket law=peer_reads_only_text".into(), format!("the peer read {}", o)),
                PeerObs::Error(e) => {
                    if !self.stopped && variant == Variant::Valid {
                        v("leg=socket law=socket_stays_open".into(), format!("the peer's read failed: {}", e));
                    }
                }
            }
        }
        // completeness at quiescence (valid variant: nothing closes the socket before teardown)
        if variant == Variant::Valid && self.snapshot.taken && self.snapshot.remote_alive && !self.snapshot.stopped {
            let at: Vec<Msg> = shared.peer_log.iter().take(self.snapshot.peer_log_len).filter_map(|o| if let PeerObs::Text(t) = o { parse(t) } else { None }).collect();
            for (src, m) in expected_from.drain(..) {
                if !at.contains(&m) {
                    v(
                        format!("leg=socket law=message_leaves_socket source_kind={}", src.trim_end_matches(char::is_numeric)),
                        format!("message {:?} written by {} had not reached the peer at quiescence", m, src),
                    );
                }
            }
            if self.unknown_finds.iter().any(|n| n == "/x") && !at.iter().any(|m| m.0 == "unlinked" && m.1 == "/x") {
                v("leg=socket law=unknown_node_is_answered".into(), "no @unlinked(..)@nodeNotFound answer for the link to /x at quiescence".into());
            }
        }

        // ---- O2: what the local endpoints read
        // frames the peer sent, in order, with their index
        let sent_frames: Vec<(usize, Msg)> = self
            .frames
            .iter()
            .enumerate()
            .take(shared.written)
            .filter_map(|(i, f)| if let PeerFrame::Text(t) = f { parse(t).map(|m| (i, m)) } else { None })
            .collect();
        let bad_at = self.frames.iter().position(|f| matches!(f, PeerFrame::Binary) || matches!(f, PeerFrame::Text(t) if parse(t).is_none()));
        let norm = |m: &Msg| -> Msg {
            // what the endpoint should read for a frame: bodies of link/sync/.. are absent
            let body = match m.0.as_str() {
                "command" | "event" => m.3.clone(),
                "unlinked" if !m.3.is_empty() => m.3.clone(),
                _ => "<none>".to_string(),
            };
            (m.0.clone(), m.1.clone(), m.2.clone(), body)
        };
        for (i, d) in self.downlinks.iter().enumerate() {
            let mine: Vec<(usize, Msg)> = sent_frames
                .iter()
                .filter(|(idx, m)| m.1 == d.node && m.2 == d.lane && matches!(m.0.as_str(), "linked" | "synced" | "unlinked" | "event") && bad_at.map(|b| *idx < b).unwrap_or(true))
                .map(|(idx, m)| (*idx, norm(m)))
                .collect();
            // safety: received is a subsequence of `mine`
            let mut cursor = 0;
            let mut got_idx = vec![];
            for r in &d.received {
                let r_cmp = r.clone();
                match mine[cursor..].iter().position(|(_, m)| *m == r_cmp) {
                    Some(p) => {
                        got_idx.push(mine[cursor + p].0);
                        cursor += p + 1;
                    }
                    None => {
                        // classify: wrong address, changed content, duplicate/out of order
                        let law = if r.1 != d.node || r.2 != d.lane {
                            format!("law=delivered_only_to_addressee endpoint=downlink got_node_matches={} got_lane_matches={}", r.1 == d.node, r.2 == d.lane)
                        } else if mine.iter().any(|(_, m)| *m == r_cmp) {
                            "law=delivered_once_in_order endpoint=downlink".to_string()
                        } else if mine.iter().any(|(_, m)| m.0 == r.0) {
                            format!("law=delivered_unchanged endpoint=downlink kind={} field=body", r.0)
                        } else {
                            format!("law=delivered_was_sent endpoint=downlink kind={}", r.0)
                        };
                        v(format!("leg=socket {}", law), format!("downlink {} on ({},{}) read {:?}; the peer sent to that address: {:?}", i, d.node, d.lane, r, mine));
                    }
                }
            }
            // completeness at quiescence
            if self.snapshot.taken && self.snapshot.dl_live[i] && self.snapshot.remote_alive && !self.snapshot.stopped {
                let upto = self.snapshot.dl_received[i];
                let have: Vec<usize> = got_idx.iter().take(upto).cloned().collect();
                for (idx, m) in &mine {
                    if d.confirmed_at.map(|c| *idx >= c).unwrap_or(false) && !have.contains(idx) {
                        // a body-changing defect is reported by the safety check above; here only loss:
                        // fewer messages of this kind and address were read than were sent after the attach
                        let n_sent = mine.iter().filter(|(j, x)| d.confirmed_at.map(|c| *j >= c).unwrap_or(false) && x.0 == m.0 && x.1 == m.1 && x.2 == m.2).count();
                        let n_read = d.received.iter().take(upto).filter(|r| r.0 == m.0 && r.1 == m.1 && r.2 == m.2).count();
                        if n_read < n_sent {
                            v(
                                format!("leg=socket law=envelope_reaches_subscriber endpoint=downlink kind={}", m.0),
                                format!("frame #{} {:?} was sent after downlink {} was attached and had not been delivered at quiescence", idx, m, i),
                            );
                        }
                    }
                }
            }
        }
        for (i, a) in self.agents.iter().enumerate() {
            let mine: Vec<(usize, Msg)> = sent_frames
                .iter()
                .filter(|(idx, m)| m.1 == a.node && matches!(m.0.as_str(), "link" | "sync" | "unlink" | "command") && bad_at.map(|b| *idx < b).unwrap_or(true))
                .map(|(idx, m)| (*idx, norm(m)))
                .collect();
            let got: Vec<Msg> = a.received.clone();
            let want: Vec<Msg> = mine.iter().map(|(_, m)| m.clone()).collect();
            // safety: prefix-closed subsequence in order
            let mut cursor = 0;
            for r in &got {
                match want[cursor..].iter().position(|m| m == r) {
                    Some(p) => cursor += p + 1,
                    None => {
                        let law = if r.1 != a.node {
                            "law=delivered_only_to_addressee endpoint=agent".to_string()
                        } else if want.contains(r) {
                            "law=delivered_once_in_order endpoint=agent".to_string()
                        } else {
                            format!("law=delivered_unchanged endpoint=agent kind={}", r.0)
                        };
                        v(format!("leg=socket {}", law), format!("agent {} read {:?}; the peer sent to that node: {:?}", a.node, r, want));
                    }
                }
            }
            if self.snapshot.taken && self.snapshot.remote_alive && !self.snapshot.stopped && variant == Variant::Valid {
                let upto = self.snapshot.agent_received[i];
                for m in &want {
                    if !got.iter().take(upto).any(|r| r == m) {
                        v(
                            format!("leg=socket law=envelope_reaches_agent kind={}", m.0),
                            format!("{:?} sent by the peer had not been delivered to agent {} at quiescence", m, a.node),
                        );
                    }
                }
            }
            if a.resolved > 1 {
                v("leg=socket law=agent_resolved_once".into(), format!("agent {} was requested {} times although its channel stayed open", a.node, a.resolved));
            }
        }

        // ---- O3: how the task ended
        let bad_processed = bad_at.map(|b| shared.written > b).unwrap_or(false);
        if !self.remote.alive() || self.panicked.is_some() {
            match (variant, bad_processed, close) {
                (Variant::Valid, _, Some(PeerObs::Close(Some((code, _))))) => {
                    if *code != CloseCode::GoingAway {
                        v("leg=socket law=stop_closes_going_away".into(), format!("close code {:?}", code));
                    }
                }
                (_, true, Some(PeerObs::Close(Some((code, _))))) => {
                    if *code != CloseCode::Protocol && !self.stopped {
                        v("leg=socket law=bad_frame_closes_with_protocol_error".into(), format!("close code {:?}", code));
                    }
                }
                _ => {}
            }
        } else if self.stopped {
            v("leg=socket law=stop_ends_task".into(), "the task was still alive at the end of the execution although stop was triggered".into());
        }
        if bad_processed && self.snapshot.taken && self.snapshot.remote_alive && !self.snapshot.stopped {
            v("leg=socket law=bad_frame_ends_task".into(), "the task was still running at quiescence after an invalid/binary frame".into());
        }

        // digest
        let mut h = vcommon::fnv(format!("{:?}", shared.peer_log).as_bytes());
        for d in &self.downlinks {
            h = h.wrapping_mul(31) ^ vcommon::fnv(format!("{:?}{:?}", d.received, d.confirmed_at).as_bytes());
        }
        for a in &self.agents {
            h = h.wrapping_mul(31) ^ vcommon::fnv(format!("{:?}", a.received).as_bytes());
        }
        h = h.wrapping_mul(31) ^ vcommon::fnv(format!("{:?}", self.sent_log).as_bytes());
        let mut log = self.log.clone();
        if self.trace {
            log.push(format!("peer_log: {:?}", shared.peer_log));
            for d in &self.downlinks {
                log.push(format!("downlink ({},{}) confirmed_at={:?} detached={} received={:?}", d.node, d.lane, d.confirmed_at, d.detached, d.received));
            }
            for a in &self.agents {
                log.push(format!("agent {} received={:?}", a.node, a.received));
            }
            log.push(format!("sent: {:?}", self.sent_log));
        }
        Outcome { digest: h, violations: viol, log }
    }
}

// ------------------------------------------------------------------------------------------
// Driver

use serde_json::{json, Value as J};
use vcommon::sched::{explore_until, run_one, ExploreStats};
use vcommon::{Ctx, Leg};

fn variant_name(v: Variant) -> &'static str {
    match v {
        Variant::Valid => "valid",
        Variant::InvalidFrame => "invalid_frame",
        Variant::BinaryFrame => "binary_frame",
    }
}

fn variant_from(s: &str) -> Option<Variant> {
    [Variant::Valid, Variant::InvalidFrame, Variant::BinaryFrame].into_iter().find(|v| variant_name(*v) == s)
}

pub fn run(ctx: &Ctx) {
    if std::env::var("C11_SOCK_TRACE").is_ok() {
        for v in [Variant::Valid, Variant::InvalidFrame, Variant::BinaryFrame] {
            let cfg = SockCfg { buf: std::env::var("C11_SOCK_BUF").ok().and_then(|b| b.parse().ok()).unwrap_or(64), variant: v, core: std::env::var("C11_SOCK_CORE").is_ok(), siblings: std::env::var("C11_SOCK_SIBLINGS").is_ok() };
            match run_one::<SockWorld>(&cfg, &[], true) {
                Ok(rec) => {
                    eprintln!("--- canonical {:?}: {} steps", cfg, rec.choices.len());
                    for (i, l) in rec.labels.iter().enumerate() {
                        eprintln!("  {:3} [{} enabled] {}", i, rec.nenabled[i], l);
                    }
                    for l in &rec.outcome.log {
                        eprintln!("  {}", l);
                    }
                    eprintln!("  violations: {:?}", rec.outcome.violations);
                }
                Err(e) => eprintln!("--- canonical {:?}: ERROR {}", cfg, e),
            }
        }
    }
    // (bound, configurations) per tier
    let c = |buf, variant, core| SockCfg { buf, variant, core, siblings: false };
    let sib = |buf| SockCfg { buf, variant: Variant::Valid, core: true, siblings: true };
    let grid: Vec<(SockCfg, u32)> = if ctx.quick() {
        vec![
            (c(64, Variant::Valid, false), 1),
            (c(4096, Variant::Valid, false), 1),
            (c(64, Variant::InvalidFrame, false), 1),
            (c(64, Variant::BinaryFrame, false), 1),
            (c(64, Variant::Valid, true), 2),
            (c(64, Variant::InvalidFrame, true), 2),
            (sib(64), 2),
        ]
    } else {
        vec![
            (c(64, Variant::Valid, false), 2),
            (c(4096, Variant::Valid, false), 2),
            (c(64, Variant::InvalidFrame, false), 2),
            (c(64, Variant::BinaryFrame, false), 2),
            (c(64, Variant::Valid, true), 3),
            (c(4096, Variant::Valid, true), 3),
            (c(64, Variant::InvalidFrame, true), 3),
            (c(64, Variant::BinaryFrame, true), 3),
            (c(64, Variant::Valid, true), 4),
            (sib(64), 3),
            (sib(4096), 3),
        ]
    };
    let leg_deadline = std::time::Instant::now() + std::time::Duration::from_secs_f64(ctx.tier.pick(25.0, 420.0));
    for (cfg, bound) in grid {
        let t0 = std::time::Instant::now();
        let per = std::time::Instant::now() + std::time::Duration::from_secs_f64(ctx.tier.pick(12.0, 240.0));
        let stats: ExploreStats = explore_until::<SockWorld>(&cfg, bound, u64::MAX, vcommon::ncpu(), Some(std::cmp::min(per, leg_deadline)));
        if !stats.machinery_errors.is_empty() {
            vcommon::machinery_failure(&format!("C11 socket leg: {}", stats.machinery_errors[0]));
        }
        let name = format!("socket_{}_{}_buf{}_d{}", if cfg.siblings { "siblings" } else if cfg.core { "core" } else { "full" }, variant_name(cfg.variant), cfg.buf, bound);
        for (sig, expl, choices) in &stats.violations {
            if sig.contains("MACHINERY") {
                vcommon::machinery_failure(&format!("C11 socket leg: {} (choices {:?})", expl, choices));
            }
            // a violating schedule is replayed twice more before it is reported
            let mut labels = vec![];
            for _ in 0..2 {
                match run_one::<SockWorld>(&cfg, choices, true) {
                    Ok(r) if r.outcome.violations.iter().any(|(s, _)| s == sig) => labels = r.labels,
                    Ok(_) => vcommon::machinery_failure(&format!("C11 socket leg: nondeterminism, violation {:?} not reproduced by schedule {:?}", sig, choices)),
                    Err(e) => vcommon::machinery_failure(&format!("C11 socket leg: {}", e)),
                }
            }
            ctx.violation(
                &name,
                sig,
                json!({"leg": "socket", "buf": cfg.buf, "variant": variant_name(cfg.variant), "core": cfg.core, "siblings": cfg.siblings, "choices": choices, "schedule": labels, "explanation": expl,
                       "what": format!("RemoteTask over a duplex web socket: {}", expl)}),
            );
        }
        let sample = run_one::<SockWorld>(&cfg, &[], true).map(|r| r.labels).unwrap_or_default();
        ctx.add_leg(Leg {
            name,
            engine: "E1-sched".into(),
            states: stats.distinct_digests,
            transitions: stats.steps,
            evaluations: stats.executions,
            distinct_nontrivial: stats.nontrivial,
            rule: "executions with at least one deviation from the eager schedule whose observation logs (peer frames, endpoint logs, send order) differ from the canonical execution's".into(),
            samples: vec![json!({"canonical_schedule": sample})],
            exhaustive: !stats.capped,
            bounds: json!({"duplex_buffer": cfg.buf, "variant": variant_name(cfg.variant), "deviation_bound": bound, "deviation_bound_completed": !stats.capped,
                "longest_schedule": stats.max_len, "peer_frames": peer_frames(cfg.variant, cfg.core).len(), "scenario": if cfg.core { "core" } else { "full" }}),
            wall_s: t0.elapsed().as_secs_f64(),
        });
    }
}

pub fn replay(d: &J) -> Vec<(String, J)> {
    let mut out = vec![];
    let (Some(buf), Some(variant), Some(ch)) = (d["buf"].as_u64(), d["variant"].as_str().and_then(variant_from), d["choices"].as_array()) else {
        return out;
    };
    let choices: Vec<u8> = ch.iter().filter_map(|c| c.as_u64().map(|c| c as u8)).collect();
    let cfg = SockCfg { buf: buf as usize, variant, core: d["core"].as_bool().unwrap_or(false), siblings: d["siblings"].as_bool().unwrap_or(false) };
    match run_one::<SockWorld>(&cfg, &choices, true) {
        Ok(rec) => {
            for (sig, expl) in rec.outcome.violations {
                out.push((sig, json!({"leg": "socket", "buf": buf, "variant": variant_name(variant), "core": cfg.core, "siblings": cfg.siblings, "choices": choices, "schedule": rec.labels, "explanation": expl})));
            }
        }
        Err(e) => vcommon::machinery_failure(&format!("C11 socket replay: {}", e)),
    }
    out
}

//! Leg (a), engine E4: the writer of WARP envelopes (`ReconEncoder`) composed with the readers.
//!
//! Every envelope kind x node x lane x body of a finite pool is encoded with the real encoder and
//! read back three ways:
//!  * `peel`      - `swimos_messages::warp::peel_envelope_header_str` (header peeler),
//!  * `interpret` - `swimos_remote::verif_hooks::interpret_frame`, the exact two steps of the
//!                  incoming socket task (`peel_envelope_header_str` + `interpret_envelope`),
//!  * `recon`     - the full Recon parser on the whole frame (what a foreign WARP peer does):
//!                  the frame must be the header attribute prepended to the value of the body.
//! Oracle: same kind, node, lane, body.

use bytes::{Bytes, BytesMut};
use serde_json::{json, Value as J};
use std::collections::BTreeMap;
use std::panic::{catch_unwind, AssertUnwindSafe};
use swimos_api::address::RelativeAddress;
use swimos_messages::protocol::{BytesRequestMessage, BytesResponseMessage, RequestMessage, ResponseMessage};
use swimos_messages::remote_protocol::NoSuchAgent;
use swimos_messages::warp::{peel_envelope_header_str, RawEnvelope};
use swimos_model::{Attr, Item, Text, Value};
use swimos_recon::parser::parse_recognize;
use swimos_remote::verif_hooks::{interpret_frame, ReconEncoder};
use swimos_utilities::encoding::BytesStr;
use tokio_util::codec::Encoder;
use uuid::Uuid;

#[derive(Clone, Copy, Debug, PartialEq, Eq, PartialOrd, Ord)]
pub enum Kind {
    Link,
    Sync,
    Unlink,
    Command,
    Linked,
    Synced,
    Unlinked,
    Event,
    /// `Encoder<NoSuchAgent>`: written as `@unlinked(..)@nodeNotFound`.
    NoSuchAgent,
}

pub const KINDS: [Kind; 9] = [
    Kind::Link,
    Kind::Sync,
    Kind::Unlink,
    Kind::Command,
    Kind::Linked,
    Kind::Synced,
    Kind::Unlinked,
    Kind::Event,
    Kind::NoSuchAgent,
];

impl Kind {
    pub fn name(self) -> &'static str {
        match self {
            Kind::Link => "link",
            Kind::Sync => "sync",
            Kind::Unlink => "unlink",
            Kind::Command => "command",
            Kind::Linked => "linked",
            Kind::Synced => "synced",
            Kind::Unlinked => "unlinked",
            Kind::Event => "event",
            Kind::NoSuchAgent => "no_such_agent",
        }
    }
    pub fn from_name(s: &str) -> Option<Kind> {
        KINDS.iter().copied().find(|k| k.name() == s)
    }
    /// The tag that has to be read from the wire.
    fn wire(self) -> &'static str {
        match self {
            Kind::NoSuchAgent => "unlinked",
            k => k.name(),
        }
    }
    fn is_request(self) -> bool {
        matches!(self, Kind::Link | Kind::Sync | Kind::Unlink | Kind::Command)
    }
    pub fn has_body(self) -> bool {
        matches!(self, Kind::Command | Kind::Event | Kind::Unlinked)
    }
}

#[derive(Clone, Debug, PartialEq, Eq)]
pub struct Case {
    pub kind: Kind,
    pub node: String,
    /// `None` only for `NoSuchAgent` without a lane.
    pub lane: Option<String>,
    /// `None`: no body (`Unlinked(None)`; for command/event the same as the empty body).
    pub body: Option<String>,
}

impl Case {
    pub fn to_json(&self) -> J {
        json!({"kind": self.kind.name(), "node": self.node, "lane": self.lane, "body": self.body})
    }
    pub fn from_json(j: &J) -> Option<Case> {
        Some(Case {
            kind: Kind::from_name(j["kind"].as_str()?)?,
            node: j["node"].as_str()?.to_string(),
            lane: j["lane"].as_str().map(|s| s.to_string()),
            body: j["body"].as_str().map(|s| s.to_string()),
        })
    }
}

#[derive(Clone, Debug)]
pub struct Failure {
    pub reader: &'static str,
    pub law: &'static str,
    pub field: &'static str,
    pub expl: String,
}

impl Failure {
    fn same(&self, o: &Failure) -> bool {
        self.reader == o.reader && self.law == o.law && self.field == o.field
    }
}

/// The node/lane pool of the DESIGN (C11).
pub fn design_strings() -> Vec<String> {
    [
        "a", "", "/a", "true", "a b", "\"", "\\", "\n", "\u{0}", "é", "\u{1F600}", "%20", "a%2Fb", "1", "@x", "a,b", "a)",
        // identifiers that begin with the lexeme of another token kind (the words a number or a
        // boolean can be spelt with): written unquoted, they must come back whole
        "info", "nanos", "NaN-c", "inf", "truex", "falsey",
    ]
    .iter()
    .map(|s| s.to_string())
    .collect()
}

/// Additional boundary strings (thorough tier).
pub fn extra_strings() -> Vec<String> {
    [
        "false", "\t", "\r", "\u{8}", "\u{c}", "\u{1f}", "\u{7f}", "\u{80}", "a\"b", "a\\nb", "\\u0041", "\\\"", "-a", "a-b", "_",
        "\u{b7}", "a:b", "a/b", "/a/b?c=d#e", "a@b", "{", "}", "(", ")", " ", "  a", "a ", "\u{feff}", "\u{2028}", "\u{d7ff}",
        "\u{e000}", "\u{ffff}", "\u{10000}", "\u{10ffff}", "node", "lane", "node:a", "a,lane:b", "a){", "#", "//", "%", "%zz", "é\"",
        "\u{1F600}\\", "True", "truex", "a\u{0}b", "\u{d7}", "\u{f7}", "1a", "a1", "nan", "infinity", "Infinity_gauge", "infra", "INFO", "e5", "-inf", "nan1",
    ]
    .iter()
    .map(|s| s.to_string())
    .collect()
}

/// All strings of length 1..=max over a small boundary alphabet, shortest first.
pub fn short_strings(max: usize) -> Vec<String> {
    let sigma = ['a', '1', ' ', '"', '\\', '\n', '\u{0}', 'é', '\u{1F600}', '%', '@', ','];
    let mut out: Vec<String> = vec![];
    let mut level: Vec<String> = vec![String::new()];
    for _ in 0..max {
        let mut next = vec![];
        for p in &level {
            for c in sigma {
                let mut s = p.clone();
                s.push(c);
                next.push(s);
            }
        }
        out.extend(next.iter().cloned());
        level = next;
    }
    out
}

pub fn design_bodies() -> Vec<Option<String>> {
    let mut v: Vec<Option<String>> = vec![None];
    for b in ["", "1", "@a", "@a{1}", " x", "\"q\""] {
        v.push(Some(b.to_string()));
    }
    v
}

pub fn extra_bodies() -> Vec<Option<String>> {
    ["{1,2}", "x", "@a(1)", "\t1", "  ", "é", "@\"q\"", "-1", "%20", "{a:1}", "@a @b", "1.5", "true", "\"\\\"\"", "  @a"]
        .iter()
        .map(|b| Some(b.to_string()))
        .collect()
}

/// Cases for one (node, lane) pair: every kind, every body where the kind carries one.
pub fn cases_for(node: &str, lane: &str, bodies: &[Option<String>], out: &mut Vec<Case>) {
    for k in KINDS {
        match k {
            Kind::NoSuchAgent => {
                out.push(Case { kind: k, node: node.to_string(), lane: Some(lane.to_string()), body: None });
                if lane.is_empty() {
                    // the encoder writes an absent lane as the empty lane; enumerate it once per node
                    out.push(Case { kind: k, node: node.to_string(), lane: None, body: None });
                }
            }
            k if k.has_body() => {
                for b in bodies {
                    if b.is_none() && k != Kind::Unlinked {
                        continue; // command/event always carry a (possibly empty) body
                    }
                    out.push(Case { kind: k, node: node.to_string(), lane: Some(lane.to_string()), body: b.clone() });
                }
            }
            k => out.push(Case { kind: k, node: node.to_string(), lane: Some(lane.to_string()), body: None }),
        }
    }
}

const ID: Uuid = Uuid::from_u128(0x1234_5678_9abc_def0_1122_3344_5566_7788);

fn addr(c: &Case) -> RelativeAddress<BytesStr> {
    RelativeAddress::new(
        BytesStr::from(c.node.as_str()),
        BytesStr::from(c.lane.as_deref().unwrap_or("")),
    )
}

fn body_bytes(c: &Case) -> Bytes {
    Bytes::from(c.body.clone().unwrap_or_default().into_bytes())
}

/// Encode a case with the real encoder.
pub fn encode(c: &Case) -> Result<Vec<u8>, String> {
    let r = catch_unwind(AssertUnwindSafe(|| {
        let mut enc = ReconEncoder;
        let mut dst = BytesMut::new();
        let res = match c.kind {
            Kind::Link => enc.encode(BytesRequestMessage::link(ID, addr(c)), &mut dst),
            Kind::Sync => enc.encode(BytesRequestMessage::sync(ID, addr(c)), &mut dst),
            Kind::Unlink => enc.encode(BytesRequestMessage::unlink(ID, addr(c)), &mut dst),
            Kind::Command => enc.encode(RequestMessage::command(ID, addr(c), body_bytes(c)), &mut dst),
            Kind::Linked => enc.encode(BytesResponseMessage::linked(ID, addr(c)), &mut dst),
            Kind::Synced => enc.encode(BytesResponseMessage::synced(ID, addr(c)), &mut dst),
            Kind::Unlinked => {
                let b: Option<Bytes> = c.body.as_ref().map(|b| Bytes::from(b.clone().into_bytes()));
                let m: BytesResponseMessage = ResponseMessage::unlinked(ID, addr(c), b);
                enc.encode(m, &mut dst)
            }
            Kind::Event => {
                let m: BytesResponseMessage = ResponseMessage::event(ID, addr(c), body_bytes(c));
                enc.encode(m, &mut dst)
            }
            Kind::NoSuchAgent => enc.encode(
                NoSuchAgent { node: Text::new(&c.node), lane: c.lane.as_ref().map(|l| Text::new(l)) },
                &mut dst,
            ),
        };
        res.map(|_| dst.to_vec()).map_err(|e| format!("encoder error: {}", e))
    }));
    match r {
        Ok(r) => r,
        Err(_) => Err("PANIC".into()),
    }
}

fn is_blank(c: char) -> bool {
    c == ' ' || c == '\t'
}

fn strip(s: &str) -> &str {
    s.trim_start_matches(is_blank)
}

fn parse_value(s: &str) -> Result<Value, String> {
    match catch_unwind(AssertUnwindSafe(|| parse_recognize::<Value>(s, false))) {
        Ok(Ok(v)) => Ok(v),
        Ok(Err(e)) => Err(format!("{}", e)),
        Err(_) => Err("PANIC".into()),
    }
}

/// The body the peer has to see (`None`: no body).
fn expected_body(c: &Case) -> Option<String> {
    match c.kind {
        Kind::NoSuchAgent => Some("@nodeNotFound".to_string()),
        Kind::Command | Kind::Event => Some(c.body.clone().unwrap_or_default()),
        Kind::Unlinked => c.body.clone(),
        _ => None,
    }
}

/// Compare a body read from the wire with the body written. The encoder inserts one blank in
/// front of a body that does not start with `@`; the peeler drops all leading blanks (space,
/// tab). Blanks in front of a Recon value are insignificant, which is verified here rather than
/// assumed: when blanks of the original body were dropped, both texts must parse to the same value.
fn body_matches(written: &str, read: &str) -> Result<(), String> {
    if written == read {
        return Ok(());
    }
    if strip(written) == read {
        match (parse_value(written), parse_value(read)) {
            (Ok(a), Ok(b)) if a == b => Ok(()),
            (Err(_), Err(_)) => Ok(()), // not Recon on either side: only the blanks differ
            (a, b) => Err(format!("dropping leading blanks changed the value: written {:?} -> {:?}, read {:?} -> {:?}", written, a, read, b)),
        }
    } else {
        Err(format!("written {:?}, read {:?}", written, read))
    }
}

pub struct Outcome {
    pub frame: Option<String>,
    pub failures: Vec<Failure>,
    pub calls: u64,
}

fn fail(reader: &'static str, law: &'static str, field: &'static str, expl: String) -> Failure {
    Failure { reader, law, field, expl }
}

/// Run one case through the encoder and all readers.
pub fn check_case(c: &Case) -> Outcome {
    let mut failures = vec![];
    let mut calls = 1;
    let bytes = match encode(c) {
        Ok(b) => b,
        Err(e) => {
            let law = if e == "PANIC" { "no_panic" } else { "encodes" };
            failures.push(fail("encoder", law, "error", e));
            return Outcome { frame: None, failures, calls };
        }
    };
    let frame = match String::from_utf8(bytes) {
        Ok(s) => s,
        Err(e) => {
            failures.push(fail("encoder", "frame_is_utf8", "error", format!("{}", e)));
            return Outcome { frame: None, failures, calls };
        }
    };
    let exp_kind = c.kind.wire();
    let exp_node = c.node.as_str();
    let exp_lane = c.lane.as_deref().unwrap_or("");
    let exp_body = expected_body(c);

    // (i) the header peeler
    calls += 1;
    let peeled = catch_unwind(AssertUnwindSafe(|| {
        peel_envelope_header_str(&frame).map(|env| {
            let (k, n, l, b): (&str, String, String, String) = match env {
                RawEnvelope::Auth(b) => ("auth", String::new(), String::new(), b.to_string()),
                RawEnvelope::DeAuth(b) => ("deauth", String::new(), String::new(), b.to_string()),
                RawEnvelope::Link { node_uri, lane_uri, body, .. } => ("link", node_uri.into(), lane_uri.into(), body.to_string()),
                RawEnvelope::Sync { node_uri, lane_uri, body, .. } => ("sync", node_uri.into(), lane_uri.into(), body.to_string()),
                RawEnvelope::Unlink { node_uri, lane_uri, body } => ("unlink", node_uri.into(), lane_uri.into(), body.to_string()),
                RawEnvelope::Command { node_uri, lane_uri, body } => ("command", node_uri.into(), lane_uri.into(), body.to_string()),
                RawEnvelope::Linked { node_uri, lane_uri, body, .. } => ("linked", node_uri.into(), lane_uri.into(), body.to_string()),
                RawEnvelope::Synced { node_uri, lane_uri, body } => ("synced", node_uri.into(), lane_uri.into(), body.to_string()),
                RawEnvelope::Event { node_uri, lane_uri, body } => ("event", node_uri.into(), lane_uri.into(), body.to_string()),
                RawEnvelope::Unlinked { node_uri, lane_uri, body } => ("unlinked", node_uri.into(), lane_uri.into(), body.to_string()),
            };
            (k, n, l, b)
        })
    }));
    match peeled {
        Err(_) => failures.push(fail("peel", "no_panic", "error", "peel_envelope_header_str panicked".into())),
        Ok(Err(e)) => failures.push(fail("peel", "roundtrip", "error", format!("frame {:?} rejected: {}", frame, e))),
        Ok(Ok((k, n, l, b))) => {
            if k != exp_kind {
                failures.push(fail("peel", "roundtrip", "kind", format!("written {}, read {}", exp_kind, k)));
            } else if n != exp_node {
                failures.push(fail("peel", "roundtrip", "node", format!("written {:?}, read {:?}", exp_node, n)));
            } else if l != exp_lane {
                failures.push(fail("peel", "roundtrip", "lane", format!("written {:?}, read {:?}", exp_lane, l)));
            } else if let Err(e) = body_matches(exp_body.as_deref().unwrap_or(""), &b) {
                failures.push(fail("peel", "roundtrip", "body", e));
            }
        }
    }

    // (ii) the incoming socket pipeline
    calls += 1;
    match catch_unwind(AssertUnwindSafe(|| interpret_frame(ID, &frame))) {
        Err(_) => failures.push(fail("interpret", "no_panic", "error", "interpret_frame panicked".into())),
        Ok(Err(e)) => failures.push(fail("interpret", "roundtrip", "error", format!("frame {:?} rejected: {}", frame, e))),
        Ok(Ok(None)) => failures.push(fail("interpret", "roundtrip", "kind", format!("frame {:?} not interpreted as a link envelope", frame))),
        Ok(Ok(Some(i))) => {
            if i.kind != exp_kind || i.is_request != c.kind.is_request() {
                failures.push(fail("interpret", "roundtrip", "kind", format!("written {}, read {} (request={})", exp_kind, i.kind, i.is_request)));
            } else if i.node != exp_node {
                failures.push(fail("interpret", "roundtrip", "node", format!("written {:?}, read {:?}", exp_node, i.node)));
            } else if i.lane != exp_lane {
                failures.push(fail("interpret", "roundtrip", "lane", format!("written {:?}, read {:?}", exp_lane, i.lane)));
            } else {
                let r = match (&exp_body, &i.body) {
                    (None, None) => Ok(()),
                    // `Unlinked(None)` and `Unlinked(Some(""))` have the same wire form.
                    (None, Some(b)) if b.is_empty() && c.kind == Kind::Unlinked => Ok(()),
                    (Some(w), None) if w.is_empty() && c.kind == Kind::Unlinked => Ok(()),
                    // a body of blanks only: the blanks in front of a body are dropped, what is left
                    // is the empty body (same wire form as no body)
                    (Some(w), None) if strip(w).is_empty() && c.kind == Kind::Unlinked => body_matches(w, ""),
                    (Some(w), Some(b)) => body_matches(w, b),
                    (w, b) => Err(format!("written {:?}, read {:?}", w, b)),
                };
                if let Err(e) = r {
                    failures.push(fail("interpret", "roundtrip", "body", e));
                }
            }
        }
    }

    // (iii) the whole frame as a Recon value: header attribute prepended to the body's value
    let body_text = exp_body.clone().unwrap_or_default();
    if let Ok(bv) = parse_value(&body_text) {
        calls += 1;
        let hdr = Attr::of((
            exp_kind,
            Value::Record(
                vec![],
                vec![
                    Item::Slot(Value::text("node"), Value::Text(Text::new(exp_node))),
                    Item::Slot(Value::text("lane"), Value::Text(Text::new(exp_lane))),
                ],
            ),
        ));
        let expected = match bv {
            Value::Extant => Value::Record(vec![hdr], vec![]),
            Value::Record(attrs, items) => {
                let mut a = vec![hdr];
                a.extend(attrs);
                Value::Record(a, items)
            }
            v => Value::Record(vec![hdr], vec![Item::ValueItem(v)]),
        };
        match parse_value(&frame) {
            Err(e) if e == "PANIC" => failures.push(fail("recon", "no_panic", "error", "Recon parser panicked on the frame".into())),
            Err(e) => failures.push(fail("recon", "roundtrip", "error", format!("frame {:?} is not valid Recon: {}", frame, e))),
            Ok(v) => {
                if v != expected {
                    failures.push(fail("recon", "roundtrip", "value", format!("frame {:?} parses to {:?}, expected {:?}", frame, v, expected)));
                }
            }
        }
    }
    Outcome { frame: Some(frame), failures, calls }
}

fn sclass(s: &str) -> &'static str {
    if s.is_empty() {
        "empty"
    } else if s == "true" || s == "false" {
        "keyword"
    } else if swimos_model::identifier::is_identifier(s) {
        if s.is_ascii() {
            "identifier"
        } else {
            "identifier_nonascii"
        }
    } else if s.chars().any(|c| c < '\u{20}' || c == '"' || c == '\\') {
        "escaped"
    } else {
        "quoted"
    }
}

fn bclass(b: &Option<String>) -> &'static str {
    match b.as_deref() {
        None => "none",
        Some("") => "empty",
        Some(s) if s.starts_with('@') => "attr_first",
        Some(s) if s.starts_with(is_blank) => "blank_first",
        Some(_) => "plain",
    }
}

fn still_fails(c: &Case, f: &Failure) -> Option<Failure> {
    check_case(c).failures.into_iter().find(|g| g.same(f))
}

/// Reduce a failing case towards the trivial one (`link`, node `a`, lane `a`, no body) while the
/// same reader/law/field keeps failing; returns the reduced case and its failure.
pub fn minimise(c: &Case, f: &Failure) -> (Case, Failure) {
    let mut cur = c.clone();
    let mut curf = f.clone();
    let attempt = |cand: Case, cur: &mut Case, curf: &mut Failure| {
        if cand != *cur {
            if let Some(g) = still_fails(&cand, curf) {
                *cur = cand;
                *curf = g;
            }
        }
    };
    if cur.kind == Kind::NoSuchAgent {
        let cand = Case { kind: Kind::Unlinked, lane: Some(cur.lane.clone().unwrap_or_default()), body: Some("@nodeNotFound".into()), ..cur.clone() };
        attempt(cand, &mut cur, &mut curf);
    }
    let cand = Case { kind: Kind::Link, body: None, lane: Some(cur.lane.clone().unwrap_or_default()), ..cur.clone() };
    attempt(cand, &mut cur, &mut curf);
    if cur.kind.has_body() {
        let cand = Case { body: Some("1".into()), ..cur.clone() };
        attempt(cand, &mut cur, &mut curf);
        let cand = Case { body: if cur.kind == Kind::Unlinked { None } else { Some(String::new()) }, ..cur.clone() };
        attempt(cand, &mut cur, &mut curf);
    }
    if cur.lane.is_some() {
        let cand = Case { lane: Some("a".into()), ..cur.clone() };
        attempt(cand, &mut cur, &mut curf);
    }
    let cand = Case { node: "a".into(), ..cur.clone() };
    attempt(cand, &mut cur, &mut curf);
    (cur, curf)
}

pub fn signature(c: &Case, f: &Failure) -> String {
    let mut s = format!("leg=pure reader={} law={} kind={} field={}", f.reader, f.law, c.kind.name(), f.field);
    if c.node != "a" {
        s.push_str(&format!(" node={}", sclass(&c.node)));
    }
    match &c.lane {
        None => s.push_str(" lane=absent"),
        Some(l) if l != "a" => s.push_str(&format!(" lane={}", sclass(l))),
        _ => {}
    }
    let trivial_body = match c.kind {
        Kind::Unlinked => c.body.is_none(),
        Kind::Command | Kind::Event => c.body.as_deref().unwrap_or("").is_empty(),
        _ => true,
    };
    if !trivial_body {
        s.push_str(&format!(" body={}", bclass(&c.body)));
    }
    s
}

pub fn nontrivial(c: &Case) -> bool {
    let ident = swimos_model::identifier::is_identifier;
    !ident(&c.node) || !c.lane.as_deref().map(ident).unwrap_or(false) || c.body.as_deref().map(|b| !b.is_empty()).unwrap_or(false)
        || c.kind == Kind::NoSuchAgent
}

#[derive(Default)]
pub struct Sweep {
    pub cases: u64,
    pub calls: u64,
    pub nontrivial: u64,
    /// signature -> replay detail (first in enumeration order)
    pub found: BTreeMap<String, J>,
}

/// Evaluate all cases of all (node, lane) pairs, in parallel over the pairs.
pub fn sweep(pairs: &[(String, String)], bodies: &[Option<String>]) -> Sweep {
    let parts = vcommon::par_map(pairs, vcommon::ncpu(), |_, (n, l)| {
        let mut cases = vec![];
        cases_for(n, l, bodies, &mut cases);
        let mut sw = Sweep::default();
        for c in &cases {
            let out = check_case(c);
            sw.cases += 1;
            sw.calls += out.calls;
            if nontrivial(c) {
                sw.nontrivial += 1;
            }
            for f in &out.failures {
                let (mc, mf) = minimise(c, f);
                let sig = signature(&mc, &mf);
                sw.found.entry(sig).or_insert_with(|| {
                    let frame = check_case(&mc).frame;
                    json!({"leg": "pure", "case": mc.to_json(), "frame": frame, "reader": mf.reader, "law": mf.law, "field": mf.field,
                           "what": format!("ReconEncoder -> {}: {} of a `{}` envelope is not read back as written ({})", mf.reader, mf.field, mc.kind.name(), mf.expl),
                           "explanation": mf.expl, "example": format!("{} node={:?} lane={:?} body={:?} -> frame {:?}", mc.kind.name(), mc.node, mc.lane, mc.body, frame),
                           "first_seen_on": c.to_json()})
                });
            }
        }
        sw
    });
    let mut total = Sweep::default();
    for p in parts {
        total.cases += p.cases;
        total.calls += p.calls;
        total.nontrivial += p.nontrivial;
        for (k, v) in p.found {
            total.found.entry(k).or_insert(v);
        }
    }
    total
}

/// Replay one recorded case: returns the (signature, detail) pairs it still produces.
pub fn replay(detail: &J) -> Vec<(String, J)> {
    let mut out = vec![];
    if let Some(c) = Case::from_json(&detail["case"]) {
        let o = check_case(&c);
        for f in &o.failures {
            let (mc, mf) = minimise(&c, f);
            out.push((
                signature(&mc, &mf),
                json!({"leg": "pure", "case": mc.to_json(), "frame": o.frame, "reader": mf.reader, "law": mf.law, "field": mf.field, "explanation": mf.expl}),
            ));
        }
    }
    out
}

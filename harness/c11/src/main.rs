//! C11 - WARP envelopes cross the socket unchanged and reach only their addressee.
//!
//! Legs:
//!  * `pure_*` (E4): `ReconEncoder` composed with `peel_envelope_header_str`, with the incoming
//!    socket pipeline (`interpret_frame` hook = peel + `interpret_envelope`) and with the full Recon
//!    parser, over every kind x node x lane x body of a boundary pool.
//!  * `multireader_*` (E2): explicit-state search over the real `swimos_multi_reader::MultiReader`
//!    with scripted streams around the bucket boundary (slab indices 0, 1, 63, 64, 65).
//!  * `socket_*` (E1): the real `RemoteTask` over an in-memory web socket with a peer, two agents,
//!    three downlinks and a commander; deviation-bounded exploration of the schedule.

mod multi;
mod pure;
mod frag;
mod socket;

use serde_json::json;
use std::time::Instant;
use vcommon::{Ctx, Leg};

fn pairs_of(pool: &[String]) -> Vec<(String, String)> {
    let mut v = vec![];
    for n in pool {
        for l in pool {
            v.push((n.clone(), l.clone()));
        }
    }
    v
}

fn pure_leg(ctx: &Ctx, name: &str, pairs: &[(String, String)], bodies: &[Option<String>], bounds: serde_json::Value) {
    let t0 = Instant::now();
    let sw = pure::sweep(pairs, bodies);
    let mut samples = vec![];
    for (n, l) in pairs.iter().filter(|(n, l)| n != "a" && l != "a").take(400).step_by(130) {
        let c = pure::Case { kind: pure::Kind::Event, node: n.clone(), lane: Some(l.clone()), body: Some("@a{1}".into()) };
        samples.push(json!({"case": c.to_json(), "frame": pure::check_case(&c).frame}));
    }
    ctx.add_leg(Leg {
        name: name.into(),
        engine: "E4-enum".into(),
        states: sw.cases,
        transitions: sw.calls,
        evaluations: sw.cases,
        distinct_nontrivial: sw.nontrivial,
        rule: "every kind x node x lane x body; non-trivial = node or lane is not a bare identifier (quoted/escaped writer path), or a non-empty body, or the NoSuchAgent encoder".into(),
        samples,
        exhaustive: true,
        bounds,
        wall_s: t0.elapsed().as_secs_f64(),
    });
    for (sig, d) in sw.found {
        ctx.violation(name, &sig, d);
    }
}

fn main() {
    let ctx = Ctx::from_env("C11");
    // panics of the subject are caught and reported as violations; keep stderr readable
    std::panic::set_hook(Box::new(|_| {}));

    if let Some(r) = ctx.replay_request() {
        let d = &r["detail"];
        match d["leg"].as_str() {
            Some("pure") => {
                for (sig, det) in pure::replay(d) {
                    ctx.violation("replay", &sig, det);
                }
            }
            Some("socket") => {
                for (sig, det) in socket::replay(d) {
                    ctx.violation("replay", &sig, det);
                }
            }
            Some("socket-fragmented") => {
                for (sig, det) in frag::replay(d) {
                    ctx.violation("replay", &sig, det);
                }
            }
            Some("multireader") => {
                if let Some((sig, det)) = multi::replay(d) {
                    ctx.violation("replay", &sig, det);
                }
            }
            other => vcommon::machinery_failure(&format!("replay file has unknown leg {:?}", other)),
        }
        ctx.finish("model_checking", "replay");
    }

    // ---- leg (a): pure round trip
    let design = pure::design_strings();
    let bodies = pure::design_bodies();
    pure_leg(
        &ctx,
        "pure_design_pool",
        &pairs_of(&design),
        &bodies,
        json!({"strings": design, "pairs": design.len() * design.len(), "bodies": bodies, "kinds": 9, "readers": ["peel", "interpret", "recon"]}),
    );
    // every short string over a boundary alphabet as node (lane fixed) and as lane (node fixed)
    let short_len = ctx.tier.pick(2, 3);
    let short = pure::short_strings(short_len);
    let mut pairs = vec![];
    for s in &short {
        pairs.push((s.clone(), "l".to_string()));
        pairs.push(("/n".to_string(), s.clone()));
    }
    pure_leg(
        &ctx,
        "pure_short_strings",
        &pairs,
        &bodies,
        json!({"alphabet": "a 1 space \" \\ \\n NUL é U+1F600 % @ ,", "max_len": short_len, "strings": short.len(), "position": "node with lane=l, lane with node=/n"}),
    );
    // every printable ASCII character (alone, after a letter, before a letter) as node and as lane
    let mut ascii_pairs = vec![];
    for c in 0x20u8..0x7f {
        let c = c as char;
        for s in [format!("{}", c), format!("a{}", c), format!("{}a", c)] {
            ascii_pairs.push((s.clone(), "l".to_string()));
            ascii_pairs.push(("/n".to_string(), s));
        }
    }
    pure_leg(
        &ctx,
        "pure_ascii",
        &ascii_pairs,
        &bodies,
        json!({"characters": "0x20..0x7e", "placements": ["c", "ac", "ca"], "position": "node with lane=l, lane with node=/n"}),
    );
    if !ctx.quick() {
        let mut ext = design.clone();
        ext.extend(pure::extra_strings());
        let mut b2 = bodies.clone();
        b2.extend(pure::extra_bodies());
        pure_leg(
            &ctx,
            "pure_extended_pool",
            &pairs_of(&ext),
            &b2,
            json!({"strings": ext.len(), "pairs": ext.len() * ext.len(), "bodies": b2.len(), "kinds": 9}),
        );
    }

    // ---- leg (b): MultiReader
    if std::env::var("C11_SKIP_MULTI").is_err() {
        multi::run(&ctx);
    }

    // ---- leg (c): RemoteTask over a duplex web socket
    socket::run(&ctx);

    // ---- leg (d): fragmented web socket messages, raw frames written by the harness
    frag::run(&ctx);

    ctx.assume("blanks (space, tab) in front of a Recon body are insignificant: the peeler drops all of them; where the written body itself starts with a blank the check verifies that both texts parse to the same value");
    ctx.assume("Unlinked(None) and Unlinked(Some(\"\")) have the same wire form and are not distinguished");
    ctx.assume("socket leg: Tokio's own cooperative budget is switched off for the hand-polled futures (tokio::task::unconstrained); the byte-channel budget is the default (RunWithBudget, 64) and reset on every poll as in swimos_server_app");
    ctx.assume("socket leg: FindNode requests are answered and local endpoints drained eagerly after every event (not explored); byte channels of 4096 bytes never fill; select! start branches are fixed by the runtime's RNG seed");
    ctx.assume("socket leg: one peer script, one set of addresses; each source sends 1-2 tagged messages; deviation bound as stated per leg");
    ctx.finish(
        "model_checking",
        "bounded-exhaustive enumeration of envelopes through the real writer and readers, explicit-state search of the real MultiReader against its specification, and deviation-bounded schedule exploration of the real RemoteTask over an in-memory web socket",
    );
}

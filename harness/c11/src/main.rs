fn main() {
    vcommon::machinery_failure("C11: engine not built yet");
}

//! Leg `socket-fragmented` (E4): text envelopes that reach the real `RemoteTask` as *fragmented*
//! web socket messages (a peer is free to fragment; swim's own writer never does), optionally with
//! a control frame between the fragments (legal per RFC 6455, and what keep-alive pings of a peer
//! produce). The peer side of the socket is raw bytes written by the harness: every envelope of a
//! small set x every split point x {no control frame, ping, pong} between the fragments.
//! Law: the downlink registered for the envelope's node and lane receives exactly that envelope
//! (then its end marker); the downlink of the other lane receives only its end marker.

use bytes::BytesMut;
use futures::StreamExt;
use ratchet::{NoExt, Role, WebSocket, WebSocketConfig};
use serde_json::json;
use std::num::NonZeroUsize;
use std::time::{Duration, Instant};
use swimos_api::address::RelativeAddress;
use swimos_messages::protocol::{Notification, RawResponseMessageDecoder};
use swimos_messages::remote_protocol::AttachClient;
use swimos_remote::RemoteTask;
use swimos_utilities::byte_channel::byte_channel;
use swimos_utilities::trigger;
use tokio::io::AsyncWriteExt;
use tokio::sync::{mpsc, oneshot};
use tokio_util::codec::FramedRead;
use uuid::Uuid;
use vcommon::{Ctx, Leg};

const LANES: [&str; 2] = ["l", "l2"];

fn envelopes() -> Vec<(usize, &'static str, &'static str, &'static str)> {
    // (addressee lane index, frame text, expected kind, expected body)
    vec![
        (0, "@event(node:\"/n\",lane:l) \"p0\"", "event", "\"p0\""),
        (1, "@event(node:\"/n\",lane:l2) 5", "event", "5"),
        // a body that is itself an envelope for the other lane: the tail of the frame is a valid frame
        (0, "@event(node:\"/n\",lane:l) @event(node:\"/n\",lane:l2) 7", "event", "@event(node:\"/n\",lane:l2) 7"),
        (1, "@linked(node:\"/n\",lane:l2)", "linked", ""),
        (0, "@unlinked(node:\"/n\",lane:l) @event(node:\"/n\",lane:l2)", "unlinked", "@event(node:\"/n\",lane:l2)"),
        (1, "@event(node:\"/n\",lane:l2) \"\u{e9}\u{20ac}\"", "event", "\"\u{e9}\u{20ac}\""),
    ]
}

fn frame(opcode: u8, fin: bool, payload: &[u8]) -> Vec<u8> {
    assert!(payload.len() < 126);
    let mut v = vec![(if fin { 0x80 } else { 0 }) | opcode, 0x80 | payload.len() as u8, 0, 0, 0, 0];
    v.extend_from_slice(payload); // mask key 0: the masked payload is the payload
    v
}

#[derive(Clone, Debug)]
pub struct Case {
    pub env: usize,
    /// byte offset of the split (0 = unfragmented)
    pub cut: usize,
    /// 0 none, 1 ping, 2 pong between the fragments; for an unfragmented frame: before it
    pub control: u8,
}

impl Case {
    fn to_json(&self) -> serde_json::Value {
        json!({"env": self.env, "cut": self.cut, "control": self.control})
    }
}

async fn run_case(c: &Case) -> Result<(), (String, String)> {
    let envs = envelopes();
    let (lane_idx, text, kind, body) = envs[c.env];
    let (stop_tx, stop_rx) = trigger::trigger();
    let (attach_tx, attach_rx) = mpsc::channel(8);
    let (server, mut client) = tokio::io::duplex(1 << 16);
    let server = WebSocket::from_upgraded(WebSocketConfig::default(), server, Some(NoExt), BytesMut::new(), Role::Server);
    let remote = RemoteTask::new(Uuid::from_u128(1), stop_rx, server, attach_rx, None, NonZeroUsize::new(8).unwrap(), Duration::from_secs(5));
    let local = tokio::task::LocalSet::new();
    let task = local.spawn_local(remote.run());
    let result = local
        .run_until(async move {
            let mut readers = vec![];
            let mut keep = vec![];
            for (i, lane) in LANES.iter().enumerate() {
                let (tx_in, rx_in) = byte_channel(NonZeroUsize::new(4096).unwrap());
                let (tx_out, rx_out) = byte_channel(NonZeroUsize::new(4096).unwrap());
                let (done_tx, done_rx) = oneshot::channel();
                let req = AttachClient::AttachDownlink { downlink_id: Uuid::from_u128(100 + i as u128), path: RelativeAddress::text("/n", lane), sender: tx_in, receiver: rx_out, done: done_tx };
                attach_tx.send(req).await.map_err(|_| ("machinery".to_string(), "attach channel closed".to_string()))?;
                let _ = tokio::time::timeout(Duration::from_secs(5), done_rx).await;
                readers.push(FramedRead::new(rx_in, RawResponseMessageDecoder));
                keep.push(tx_out);
            }
            let mut bytes = vec![];
            let control = |b: &mut Vec<u8>| match c.control {
                1 => b.extend(frame(0x9, true, b"hb")),
                2 => b.extend(frame(0xA, true, b"hb")),
                _ => {}
            };
            if c.cut == 0 {
                control(&mut bytes);
                bytes.extend(frame(0x1, true, text.as_bytes()));
            } else {
                bytes.extend(frame(0x1, false, &text.as_bytes()[..c.cut]));
                control(&mut bytes);
                bytes.extend(frame(0x0, true, &text.as_bytes()[c.cut..]));
            }
            for lane in LANES {
                bytes.extend(frame(0x1, true, format!("@event(node:\"/n\",lane:{}) \"end\"", lane).as_bytes()));
            }
            client.write_all(&bytes).await.map_err(|e| ("machinery".to_string(), e.to_string()))?;
            let mut got: Vec<Vec<(String, String)>> = vec![vec![], vec![]];
            for (i, r) in readers.iter_mut().enumerate() {
                loop {
                    match tokio::time::timeout(Duration::from_secs(20), r.next()).await {
                        Ok(Some(Ok(m))) => {
                            let (k, b) = match m.envelope {
                                Notification::Linked => ("linked", String::new()),
                                Notification::Synced => ("synced", String::new()),
                                Notification::Unlinked(b) => ("unlinked", b.map(|b| String::from_utf8_lossy(&b).to_string()).unwrap_or_default()),
                                Notification::Event(b) => ("event", String::from_utf8_lossy(&b).to_string()),
                            };
                            if k == "event" && b == "\"end\"" {
                                break;
                            }
                            got[i].push((k.to_string(), b));
                        }
                        Ok(Some(Err(e))) => {
                            got[i].push(("decode-error".into(), format!("{:?}", e)));
                            break;
                        }
                        Ok(None) => {
                            got[i].push(("closed".into(), String::new()));
                            break;
                        }
                        Err(_) => {
                            got[i].push(("timeout".into(), String::new()));
                            break;
                        }
                    }
                }
            }
            drop(keep);
            stop_tx.trigger();
            let frag = if c.cut == 0 { "whole" } else { "fragmented" };
            let ctl = ["none", "ping", "pong"][c.control as usize];
            for i in 0..2 {
                let want: Vec<(String, String)> = if i == lane_idx { vec![(kind.to_string(), body.to_string())] } else { vec![] };
                if got[i] != want {
                    let which = if i == lane_idx { "addressee" } else { "other_downlink" };
                    return Err((
                        format!("leg=socket-fragmented law=delivered_to_exactly_its_addressee frame={} control_between={} at={}", frag, ctl, which),
                        format!("frame {:?} cut at {} with {} between: downlink on lane {} received {:?}, expected {:?}", text, c.cut, ctl, LANES[i], got[i], want),
                    ));
                }
            }
            Ok(())
        })
        .await;
    let _ = tokio::time::timeout(Duration::from_secs(5), task).await;
    result
}

pub fn run_one(c: &Case) -> Result<(), (String, String)> {
    let c = c.clone();
    std::thread::spawn(move || {
        let rt = tokio::runtime::Builder::new_current_thread().enable_all().start_paused(true).build().unwrap();
        rt.block_on(run_case(&c))
    })
    .join()
    .unwrap_or_else(|_| Err(("leg=socket-fragmented law=no_panic".into(), "the remote task or the harness panicked".into())))
}

pub fn run(ctx: &Ctx) {
    if vcommon::sched::is_worker() {
        return;
    }
    let t0 = Instant::now();
    let envs = envelopes();
    let mut cases = vec![];
    for (e, (_, text, _, _)) in envs.iter().enumerate() {
        for control in 0..3u8 {
            cases.push(Case { env: e, cut: 0, control });
        }
        let step = if ctx.quick() { 3 } else { 1 };
        for cut in (1..text.len()).filter(|c| text.is_char_boundary(*c) || true).step_by(step) {
            for control in 0..3u8 {
                cases.push(Case { env: e, cut, control });
            }
        }
    }
    let results = vcommon::par_map(&cases, vcommon::ncpu(), |_, c| run_one(c));
    let mut seen = std::collections::BTreeSet::new();
    let mut machinery = 0;
    for (c, r) in cases.iter().zip(results.iter()) {
        if let Err((sig, expl)) = r {
            if sig == "machinery" {
                machinery += 1;
                continue;
            }
            if seen.insert(sig.clone()) {
                ctx.violation("socket-fragmented", sig, json!({"leg": "socket-fragmented", "case": c.to_json(), "explanation": expl, "what": expl}));
            }
        }
    }
    if machinery > 0 {
        vcommon::machinery_failure("socket-fragmented: could not drive the remote task");
    }
    let n = cases.len() as u64;
    ctx.add_leg(Leg {
        name: "socket-fragmented".into(),
        engine: "E4-enum".into(),
        states: n,
        transitions: n * 3,
        evaluations: n,
        distinct_nontrivial: cases.iter().filter(|c| c.cut > 0).count() as u64,
        rule: "every envelope of the set x every split point (every third in the quick tier) x {nothing, ping, pong} between the fragments, written as raw web socket frames to the real RemoteTask with two downlinks attached; non-trivial = fragmented cases".into(),
        samples: vec![json!("TEXT(fin=0) '@event(node:\"/n\",lane:l)' | PING | CONT(fin=1) ' @event(node:\"/n\",lane:l2) 7'")],
        exhaustive: true,
        bounds: json!({"envelopes": envs.len(), "downlinks": 2, "controls": ["none", "ping", "pong"]}),
        wall_s: t0.elapsed().as_secs_f64(),
    });
}

pub fn replay(d: &serde_json::Value) -> Vec<(String, serde_json::Value)> {
    let g = |k: &str| d["case"][k].as_u64().unwrap_or_else(|| vcommon::machinery_failure("bad case")) as usize;
    let c = Case { env: g("env"), cut: g("cut"), control: g("control") as u8 };
    match run_one(&c) {
        Err((sig, expl)) => vec![(sig, json!({"leg": "socket-fragmented", "case": c.to_json(), "explanation": expl}))],
        Ok(()) => vec![],
    }
}

//! C02 - Map lanes: every subscriber's replica converges to the lane's map.
//! Engine E1 over the agent-system harness (the small-scope E2 legs over the two coalescing queues
//! are in the `mapq` module of this crate).

use asys::mapq;

use asys::grid::{grid, replay, run_grid, GridSpec};
use asys::oracle::{check_c04, check_map, check_take_drop};
use asys::scripts::*;
use asys::world::{set_checker, Mode, Observation, Step};
use vcommon::Ctx;

fn checker(obs: &Observation) -> Vec<(String, String)> {
    let mut v = check_map(obs, false);
    v.extend(check_take_drop(obs));
    for (s, e) in check_c04(obs) {
        if s.contains("never produced") || s.contains("undecodable") {
            v.push((s, e));
        }
    }
    v
}

fn upd(k: i32, v: i32) -> String {
    format!("@upd{{k:{},v:{}}}", k, v)
}

fn scripts(quick: bool) -> Vec<(Vec<(usize, Step)>, usize)> {
    let mut out: Vec<(Vec<(usize, Step)>, usize)> = vec![];
    let (a1, a2, a3, a4) = (upd(1, 1), upd(2, 2), upd(1, 3), upd(3, 4));
    // one remote: observer and writer at once, coalescing forced by the 8 byte channel
    out.push((sequential(&[vec![link("m"), act(&[&a1, &a2, &a3, "@rem(2)", &a4])]]), 1));
    out.push((sequential(&[vec![link("m"), act(&[&a1, &a2]), act(&["@clr", &a3]), act(&[&a4, "@rem(1)"])]]), 1));
    out.push((sequential(&[vec![sync("m"), cmd("m", "@update(key:1) 1"), cmd("m", "@update(key:2) 2"), cmd("m", "@remove(key:1)"), cmd("m", "@clear"), cmd("m", "@update(key:3) 3")]]), 1));
    // values of different encoded lengths for one key, a re-link with operations pending, a command
    // the lane cannot decode in the middle of a stream
    out.push((sequential(&[vec![link("m"), act(&[&upd(1, 1), &upd(1, 22222222), &upd(2, 3), &upd(1, 4), &upd(2, 55555)])]]), 1));
    out.push((sequential(&[vec![link("m"), act(&[&a1, &a2, &a4]), link("m"), act(&[&a3]), sync("m")]]), 1));
    out.push((sequential(&[vec![link("m"), cmd("m", "@update(key:1) 1"), cmd("m", "@bogus"), cmd("m", "@update(key:2) 2"), cmd("m", "@remove(key:1)")]]), 1));
    // take / drop by command (documented key order); all on lane m so that order is defined
    let u = |k: i32, v: i32| cmd("m", &format!("@update(key:{}) {}", k, v));
    out.push((sequential(&[vec![sync("m"), u(2, 2), u(3, 4), u(1, 1), cmd("m", "@take(2)")]]), 1));
    out.push((sequential(&[vec![sync("m"), u(3, 4), u(1, 1), u(2, 2), cmd("m", "@drop(1)"), u(5, 5), cmd("m", "@take(1)")]]), 1));
    out.push((sequential(&[vec![link("m"), u(1, 1), u(2, 2), u(3, 4), cmd("m", "@drop(2)"), cmd("m", "@take(0)")]]), 1));
    out.push((sequential(&[vec![link("m"), u(-1, 1), u(10, 2), u(9, 4), cmd("m", "@take(2)")]]), 1));
    // observer + writer, slow and fast
    let writer1 = vec![act(&[&a1, &a2]), act(&[&a3, "@rem(2)"]), act(&["@clr", &a4])];
    let writer2 = vec![cmd("m", "@update(key:1) 1"), act(&[&a2, &a3]), cmd("m", "@remove(key:1)")];
    let observers: Vec<Vec<Step>> = vec![vec![link("m")], vec![sync("m")]];
    for w in [&writer1, &writer2] {
        for o in &observers {
            for (i, s) in interleavings(&[o.clone(), w.clone()]).into_iter().enumerate() {
                if !quick || i % 2 == 0 {
                    out.push((s, 2));
                }
            }
        }
    }
    // two observers with different speeds are the same script; two writers:
    out.push((sequential(&[vec![sync("m")], vec![act(&[&a1, &a2])], vec![act(&[&a3, "@rem(2)"])]]), 3));
    out
}

fn main() {
    let ctx = Ctx::from_env("C02");
    set_checker(checker);
    if let Some(r) = ctx.replay_request() {
        if r["leg"].as_str().map(|l| l.starts_with("mapq")).unwrap_or(false) {
            mapq::replay(&ctx, r);
        } else if r["leg"].as_str().map(|l| l.starts_with("uplinks")).unwrap_or(false) {
            asys::uplinks::replay(&ctx, r);
        } else {
            replay(&ctx, r);
        }
        ctx.finish("model_checking", "replay");
    }
    let quick = ctx.quick();
    mapq::run(&ctx);
    // the registry that decides, per remote, which lane's queue is written next (uplink/mod.rs is
    // where a map lane's operations wait for a slow remote): everything it says about map lanes
    asys::uplinks::run(&ctx, "uplinks-bfs-map", if quick { 7 } else { 8 }, |m| m.contains("lane-kind=map"));
    let sc = scripts(quick);
    let modes = [Mode::Eager, Mode::Burst, Mode::SlowRead];
    let cfgs = grid(&sc, if quick { &[8, 4096] } else { &[8, 48, 4096] }, &[2, 64], &modes, &[0]);
    let mut small = asys::grid::with_small_lane_buf(&cfgs);
    small.extend(asys::grid::with_small_lane_in_buf(&cfgs));
    small.extend(cfgs);
    let cfgs = small;
    run_grid(&ctx, GridSpec { name: "as-map-grid-d1".into(), cfgs, bound: 1, max_exec_per_cfg: 20_000, wall_cap_s: if quick { 22.0 } else { 1200.0 } });
    let core: Vec<_> = sc.iter().filter(|(s, _)| s.len() <= 4).cloned().collect();
    let cfgs = grid(&core, &[8], &[2, 3], &[Mode::Eager, Mode::SlowRead], &[0, 7]);
    run_grid(&ctx, GridSpec { name: "as-map-core-d2".into(), cfgs, bound: if quick { 2 } else { 3 }, max_exec_per_cfg: if quick { 20_000 } else { 3_000_000 }, wall_cap_s: if quick { 14.0 } else { 1200.0 } });
    ctx.assume("tokio select! start index and HashMap iteration order are fixed per VERIF_SEED (deterministic interposer), not enumerated");
    ctx.assume("AS leg: i32 keys (Recon order = numeric order); textual key variants are covered by the queue-level legs");
    ctx.finish(
        "model_checking",
        "explicit-state search of the two coalescing queues (agent EventQueue/WriteQueues and runtime MapOperationQueue, real code via hooks) against a reference, plus deviation-bounded schedule exploration of the real agent+runtime future with replica-fold oracles",
    );
}

fn main() {
    vcommon::machinery_failure("C02: engine not built yet");
}

//! Canonical form of a model value modulo the representation freedoms a `Form` reader is
//! documented / designed to tolerate, used by the law "an accepted input is a re-spelling of the
//! model of the value it was read as" (nothing invented, nothing dropped):
//!
//! * numeric kinds are interchangeable (Int32(1) = UInt64(1) = BigInt(1) = Float64(1.0));
//! * slots of a record body are unordered; attributes after the first (the tag) are unordered;
//! * an attribute body `{x}` with a single value item is `x`, an empty one is absent (Extant);
//! * a slot whose value is Extant, and a non-tag attribute with an Extant body, may be omitted
//!   (`Option` fields are written by omission and read from either form).

use num_bigint::BigInt;
use num_traits::{FromPrimitive, ToPrimitive};
use swimos_model::{Item, Value};

#[derive(PartialEq, Eq, PartialOrd, Ord, Debug, Clone)]
pub enum C {
    Nil,
    Num(String),
    Bool(bool),
    Text(String),
    Data(Vec<u8>),
    Rec { attrs: Vec<(String, C)>, items: Vec<C>, slots: Vec<(C, C)> },
}

pub type PathPred<'a> = &'a dyn Fn(&str) -> bool;

fn never(_: &str) -> bool {
    false
}

pub fn canon(v: &Value) -> C {
    canon_at(v, "", &never, &never)
}

/// As `canon`, but at the given `map_paths` (same path syntax as `first_difference`) several
/// slots with the same key collapse to the last one (the reading of a map).
pub fn canon_with(v: &Value, map_paths: PathPred<'_>, opaque: PathPred<'_>) -> C {
    canon_at(v, "", map_paths, opaque)
}

/// Integers beyond 2^53 are compared at `f64` precision (an `f64` field reads them rounded).
fn int(n: BigInt) -> C {
    if n.bits() > 53 {
        match n.to_f64().and_then(BigInt::from_f64) {
            Some(r) => C::Num(r.to_string()),
            None => C::Num(n.to_string()),
        }
    } else {
        C::Num(n.to_string())
    }
}

fn key_name(k: &C) -> String {
    match k {
        C::Text(t) => t.clone(),
        C::Num(n) => n.clone(),
        _ => "?".to_string(),
    }
}

fn canon_at(v: &Value, path: &str, map_paths: PathPred<'_>, opaque: PathPred<'_>) -> C {
    if opaque(path) {
        return C::Nil;
    }
    match v {
        Value::Extant => C::Nil,
        Value::Int32Value(n) => int(BigInt::from(*n)),
        Value::Int64Value(n) => int(BigInt::from(*n)),
        Value::UInt32Value(n) => int(BigInt::from(*n)),
        Value::UInt64Value(n) => int(BigInt::from(*n)),
        Value::BigInt(n) => int(n.clone()),
        Value::BigUint(n) => int(BigInt::from(n.clone())),
        Value::Float64Value(x) => match (x.is_finite() && x.fract() == 0.0).then(|| BigInt::from_f64(*x)).flatten() {
            Some(n) => C::Num(n.to_string()),
            None => C::Num(format!("f{:?}", x)),
        },
        Value::BooleanValue(b) => C::Bool(*b),
        Value::Text(t) => C::Text(t.to_string()),
        Value::Data(b) => C::Data(b.as_ref().to_vec()),
        Value::Record(attrs, items) => {
            let mut cattrs: Vec<(String, C)> = vec![];
            for (i, a) in attrs.iter().enumerate() {
                let body = attr_body(canon_at(&a.value, &format!("{}@{}/", path, a.name), map_paths, opaque));
                if i > 0 && body == C::Nil {
                    continue;
                }
                cattrs.push((a.name.to_string(), body));
            }
            if cattrs.len() > 1 {
                cattrs[1..].sort();
            }
            let mut citems = vec![];
            let mut cslots = vec![];
            for it in items {
                match it {
                    Item::ValueItem(v) => {
                        let p = format!("{}item[{}]/", path, citems.len());
                        citems.push(canon_at(v, &p, map_paths, opaque))
                    }
                    Item::Slot(k, v) => {
                        let ck = canon_at(k, "?", &never, &never);
                        let cv = canon_at(v, &format!("{}{}:/", path, key_name(&ck)), map_paths, opaque);
                        if map_paths(path) {
                            cslots.retain(|(k0, _)| *k0 != ck);
                        }
                        if cv != C::Nil {
                            cslots.push((ck, cv));
                        }
                    }
                }
            }
            cslots.sort();
            // an attributed record whose body is the single item Extant has no body (this is
            // how a delegated Extant body is written to the model)
            if !cattrs.is_empty() && cslots.is_empty() && citems == vec![C::Nil] {
                citems.clear();
            }
            C::Rec { attrs: cattrs, items: citems, slots: cslots }
        }
    }
}

/// For types whose body is a `Value` field: a body made of one record is that record's contents
/// (`@a {{7}}` reads as the body `{7}`, whose model is `@a {7}`; `@a {@b{7}}` as `@a @b {7}`).
pub fn unwrap_value_body(c: C) -> C {
    let mut c = c;
    loop {
        match c {
            C::Rec { mut attrs, mut items, slots } if !attrs.is_empty() && slots.is_empty() && items.len() == 1 && matches!(&items[0], C::Rec { .. }) => {
                if let Some(C::Rec { attrs: a2, items: i2, slots: s2 }) = items.pop() {
                    // the attributes of a delegated body are appended to those of the record
                    attrs.extend(a2);
                    let first = attrs.remove(0);
                    attrs.retain(|a| a.1 != C::Nil);
                    attrs.insert(0, first);
                    attrs[1..].sort();
                    let mut i2 = i2;
                    if s2.is_empty() && i2 == vec![C::Nil] {
                        i2.clear();
                    }
                    c = C::Rec { attrs, items: i2, slots: s2 };
                } else {
                    unreachable!()
                }
            }
            ow => return ow,
        }
    }
}

fn attr_body(c: C) -> C {
    match c {
        C::Rec { attrs, mut items, slots } if attrs.is_empty() && slots.is_empty() && items.len() <= 1 => items.pop().unwrap_or(C::Nil),
        ow => ow,
    }
}

/// Location of the first difference between two canonical forms (for signatures).
pub fn first_difference(a: &C, b: &C) -> Option<String> {
    if a == b {
        return None;
    }
    match (a, b) {
        (C::Rec { attrs: aa, items: ai, slots: asl }, C::Rec { attrs: ba, items: bi, slots: bsl }) => {
            if aa.len() != ba.len() {
                return Some(format!("attr_count({}vs{})", aa.len(), ba.len()));
            }
            for (x, y) in aa.iter().zip(ba.iter()) {
                if x.0 != y.0 {
                    return Some(format!("attr_name({}vs{})", x.0, y.0));
                }
                if let Some(d) = first_difference(&x.1, &y.1) {
                    return Some(format!("@{}/{}", x.0, d));
                }
            }
            if ai.len() != bi.len() {
                return Some(format!("item_count({}vs{})", ai.len(), bi.len()));
            }
            for (i, (x, y)) in ai.iter().zip(bi.iter()).enumerate() {
                if let Some(d) = first_difference(x, y) {
                    return Some(format!("item[{}]/{}", i, d));
                }
            }
            if asl.len() != bsl.len() {
                return Some(format!("slot_count({}vs{})", asl.len(), bsl.len()));
            }
            for (x, y) in asl.iter().zip(bsl.iter()) {
                if x.0 != y.0 {
                    return Some("slot_key".to_string());
                }
                if let Some(d) = first_difference(&x.1, &y.1) {
                    return Some(format!("{}:/{}", key_name(&x.0), d));
                }
            }
            Some("?".to_string())
        }
        (C::Rec { .. }, _) | (_, C::Rec { .. }) => Some("kind".to_string()),
        _ => Some("value".to_string()),
    }
}

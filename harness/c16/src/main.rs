fn main() {
    vcommon::machinery_failure("C16: engine not built yet");
}

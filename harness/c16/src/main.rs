//! C16 - Form: typed, model and wire representations of a value all agree.
//!
//! Engine E4 (bounded exhaustive enumeration). A battery of types deriving `swimos_form::Form`
//! is compiled in (`battery.rs`); for every type every instance with field values from small
//! pools is enumerated smallest-first and checked against:
//!
//! * model:   `try_from_value(as_value(x)) == x`, same for `into_value` / `try_convert`;
//! * recon:   `parse_recognize::<T>(print(x)) == x` for the three printers;
//! * agree:   for every text of a per-type text set (printed forms, every single-element
//!            deletion / duplication / transposition / retagging / rekeying / replacement on the
//!            `Value` level, every single-token deletion / duplication / transposition on the raw
//!            text, and the printed forms of all *other* battery types) reading directly with the
//!            recognizer agrees with parsing to `Value` and converting - on acceptance and value;
//! * msgpack: write + read back == x; reading the model's encoding == x; direct read agrees with
//!            read-as-`Value`-then-convert (also for the mutated values); the reader gives the same
//!            result on every 1-cut / 2-cut segmentation of the buffer (a non-contiguous `Buf`);
//!            every strict prefix is rejected without a panic.

mod battery;
mod canon;
mod mutate;

use battery::*;
use num_bigint::{BigInt, BigUint};
use std::collections::HashMap;
use bytes::Buf;
use serde_json::json;
use std::collections::{BTreeMap, HashSet};
use std::fmt::Debug;
use std::panic::{catch_unwind, AssertUnwindSafe};
use std::sync::atomic::{AtomicBool, AtomicU64, Ordering};
use std::sync::Mutex;
use std::time::Instant;
use swimos_form::read::ReadError;
use swimos_form::write::StructuralWritable;
use swimos_form::Form;
use swimos_model::Value;
use swimos_msgpack::{read_from_msg_pack, MsgPackInterpreter, MsgPackReadError};
use swimos_recon::parser::{parse_recognize, ParseError};
use swimos_recon::{print_recon, print_recon_compact, print_recon_pretty};
use vcommon::{Ctx, Leg};

// ---------------------------------------------------------------------------------- outcomes

#[derive(Debug, Clone, PartialEq)]
enum Out<T> {
    Ok(T),
    Err(String, String),
    Panic(String),
}

impl<T: Debug> Out<T> {
    fn class(&self) -> String {
        match self {
            Out::Ok(_) => "Ok".into(),
            Out::Err(c, _) => format!("Err({})", c),
            Out::Panic(_) => "PANIC".into(),
        }
    }
    fn show(&self) -> String {
        match self {
            Out::Ok(t) => format!("Ok({:?})", t),
            Out::Err(_, full) => format!("Err({})", full),
            Out::Panic(m) => format!("PANIC({})", m),
        }
    }
    fn is_ok(&self) -> bool {
        matches!(self, Out::Ok(_))
    }
}

fn variant_name(dbg: &str) -> String {
    dbg.chars().take_while(|c| c.is_alphanumeric() || *c == '_').collect()
}

fn read_err_class(e: &ReadError) -> String {
    match e {
        ReadError::UnexpectedKind { actual, .. } => format!("UnexpectedKind:{:?}", actual),
        ow => variant_name(&format!("{:?}", ow)),
    }
}

/// Names of the top-level fields in which two values of a battery type differ (from the pretty
/// `Debug` form), so that "read back something else" findings on the same type but in different
/// fields get different signatures.
fn differing_fields<T: Debug>(want: &T, got: &T) -> String {
    fn chunks(s: &str) -> Vec<(String, String)> {
        let mut out: Vec<(String, String)> = vec![];
        for line in s.lines() {
            let top = line.starts_with("    ") && !line.starts_with("     ") && !matches!(line.trim().chars().next(), Some(']') | Some('}') | Some(')'));
            if top || out.is_empty() {
                let name = line.trim().split(':').next().unwrap_or("").trim_end_matches(',').to_string();
                out.push((name, line.to_string()));
            } else if let Some(last) = out.last_mut() {
                last.1.push('\n');
                last.1.push_str(line);
            }
        }
        // compare as multisets of lines: HashMap fields print in iteration order
        for c in out.iter_mut() {
            let mut lines: Vec<&str> = c.1.lines().collect();
            lines.sort();
            c.1 = lines.join("\n");
        }
        out
    }
    let (w, g) = (chunks(&format!("{:#?}", want)), chunks(&format!("{:#?}", got)));
    if w.len() != g.len() || w.first().map(|c| &c.0) != g.first().map(|c| &c.0) {
        return "variant".to_string();
    }
    let mut names = vec![];
    for (i, (a, b)) in w.iter().zip(g.iter()).enumerate().skip(1) {
        if a.1 != b.1 {
            let n = &a.0;
            let is_ident = !n.is_empty() && n.chars().all(|c| c.is_alphanumeric() || c == '_');
            names.push(if is_ident { n.clone() } else { format!("#{}", i - 1) });
        }
    }
    if names.is_empty() { "?".to_string() } else { names.join("+") }
}

fn canon_difference<T: Battery>(input: &Value, model_of_read: &Value) -> Option<String> {
    let mut a = canon::canon_with(input, &T::is_map_path, &T::is_opaque_path);
    let mut b = canon::canon_with(model_of_read, &|_| false, &T::is_opaque_path);
    if T::VALUE_BODY {
        a = canon::unwrap_value_body(a);
        b = canon::unwrap_value_body(b);
    }
    canon::first_difference(&a, &b)
}

fn got_class<T: Debug + PartialEq>(want: &T, r: &Out<T>) -> String {
    match r {
        Out::Ok(t) => format!("Ok(different:{})", differing_fields(want, t)),
        ow => ow.class(),
    }
}

fn parse_err_class(e: &ParseError) -> String {
    match e {
        ParseError::Syntax { .. } => "Syntax".into(),
        ParseError::Structure(r) => read_err_class(r),
        ParseError::InvalidEventStream => "InvalidEventStream".into(),
    }
}

fn mp_err_class(e: &MsgPackReadError) -> String {
    match e {
        MsgPackReadError::Structure(r) => read_err_class(r),
        ow => format!("MsgPack::{}", variant_name(&format!("{:?}", ow))),
    }
}

fn guard<R>(f: impl FnOnce() -> R) -> Result<R, String> {
    catch_unwind(AssertUnwindSafe(f)).map_err(|e| {
        if let Some(s) = e.downcast_ref::<&str>() {
            s.to_string()
        } else if let Some(s) = e.downcast_ref::<String>() {
            s.clone()
        } else {
            "panic".to_string()
        }
    })
}

fn from_read<T>(r: Result<Result<T, ReadError>, String>) -> Out<T> {
    match r {
        Ok(Ok(t)) => Out::Ok(t),
        Ok(Err(e)) => Out::Err(read_err_class(&e), format!("{:?}", e)),
        Err(p) => Out::Panic(p),
    }
}

fn from_parse<T>(r: Result<Result<T, ParseError>, String>) -> Out<T> {
    match r {
        Ok(Ok(t)) => Out::Ok(t),
        Ok(Err(e)) => Out::Err(parse_err_class(&e), format!("{:?}", e)),
        Err(p) => Out::Panic(p),
    }
}

fn from_mp<T>(r: Result<Result<T, MsgPackReadError>, String>) -> Out<T> {
    match r {
        Ok(Ok(t)) => Out::Ok(t),
        Ok(Err(e)) => Out::Err(mp_err_class(&e), format!("{:?}", e)),
        Err(p) => Out::Panic(p),
    }
}

// ---------------------------------------------------------------------------------- findings

/// Collects findings, keeping for every signature the smallest witness (size, then tie-break
/// text), so the reported case is minimal and independent of thread interleaving.
struct Sink {
    found: Mutex<BTreeMap<String, (usize, String, &'static str, serde_json::Value)>>,
}

impl Sink {
    fn new() -> Sink {
        Sink { found: Mutex::new(BTreeMap::new()) }
    }
    fn report(&self, leg: &'static str, sig: String, size: usize, tie: &str, detail: serde_json::Value) {
        let mut f = self.found.lock().unwrap();
        match f.get(&sig) {
            Some((s, t, _, _)) if (*s, t.as_str()) <= (size, tie) => {}
            _ => {
                f.insert(sig, (size, tie.to_string(), leg, detail));
            }
        }
    }
}

/// Sharded set of 128-bit hashes of (type, input) pairs already evaluated.
struct Seen {
    shards: Vec<Mutex<HashSet<u128>>>,
}

impl Seen {
    fn new() -> Seen {
        Seen { shards: (0..256).map(|_| Mutex::new(HashSet::new())).collect() }
    }
    /// true if (ti, data) was not seen before.
    fn insert(&self, ti: usize, data: &[u8]) -> bool {
        let mut h1: u64 = 0xcbf29ce484222325 ^ (ti as u64).wrapping_mul(0x9e3779b97f4a7c15);
        let mut h2: u64 = 0x84222325cbf29ce4 ^ (ti as u64).wrapping_mul(0xc2b2ae3d27d4eb4f);
        for b in data {
            h1 = (h1 ^ *b as u64).wrapping_mul(0x100000001b3);
            h2 = (h2.rotate_left(5) ^ *b as u64).wrapping_mul(0x9e3779b97f4a7c15);
        }
        let k = ((h1 as u128) << 64) | h2 as u128;
        self.shards[(h1 >> 56) as usize].lock().unwrap().insert(k)
    }
}

#[derive(Default)]
struct Counters {
    model_evals: AtomicU64,
    model_calls: AtomicU64,
    recon_evals: AtomicU64,
    recon_calls: AtomicU64,
    mp_evals: AtomicU64,
    mp_calls: AtomicU64,
    mp_chunkings: AtomicU64,
    mp_prefixes: AtomicU64,
    mp_nontrivial: AtomicU64,
    text_evals: AtomicU64,
    text_calls: AtomicU64,
    text_accept_any: AtomicU64,
    text_accept_both: AtomicU64,
    text_accept_mutated: AtomicU64,
    mpm_evals: AtomicU64,
    mpm_calls: AtomicU64,
    mpm_accept_any: AtomicU64,
}

fn add(c: &AtomicU64, n: u64) {
    c.fetch_add(n, Ordering::Relaxed);
}

// ---------------------------------------------------------------------------------- msgpack helpers

fn mp_write<W: StructuralWritable>(x: &W) -> Result<Vec<u8>, String> {
    match guard(|| {
        let mut buf: Vec<u8> = Vec::new();
        let r = x.write_with(MsgPackInterpreter::new(&mut buf));
        r.map(|_| buf).map_err(|e| format!("{:?}", e))
    }) {
        Ok(Ok(b)) => Ok(b),
        Ok(Err(e)) => Err(format!("Err({})", e)),
        Err(p) => Err(format!("PANIC({})", p)),
    }
}

/// A `Buf` made of several segments (what a reader sees when a frame arrives in pieces and is
/// handed over as a chain).
struct SegBuf<'a> {
    segs: Vec<&'a [u8]>,
    cur: usize,
    off: usize,
}

impl<'a> SegBuf<'a> {
    fn new(data: &'a [u8], cuts: &[usize]) -> SegBuf<'a> {
        let segs = vcommon::cuts::split(data, cuts);
        let mut b = SegBuf { segs, cur: 0, off: 0 };
        b.skip_empty();
        b
    }
    fn skip_empty(&mut self) {
        while self.cur < self.segs.len() && self.off >= self.segs[self.cur].len() {
            self.cur += 1;
            self.off = 0;
        }
    }
}

impl<'a> Buf for SegBuf<'a> {
    fn remaining(&self) -> usize {
        if self.cur >= self.segs.len() {
            0
        } else {
            self.segs[self.cur].len() - self.off + self.segs[self.cur + 1..].iter().map(|s| s.len()).sum::<usize>()
        }
    }
    fn chunk(&self) -> &[u8] {
        if self.cur >= self.segs.len() {
            &[]
        } else {
            &self.segs[self.cur][self.off..]
        }
    }
    fn advance(&mut self, mut cnt: usize) {
        assert!(cnt <= self.remaining(), "advance past the end of SegBuf");
        while cnt > 0 {
            let here = self.segs[self.cur].len() - self.off;
            if cnt < here {
                self.off += cnt;
                cnt = 0;
            } else {
                cnt -= here;
                self.cur += 1;
                self.off = 0;
            }
        }
        self.skip_empty();
    }
}

fn mp_read<T: Form>(bytes: &[u8], cuts: &[usize]) -> (Out<T>, usize) {
    let mut left = 0usize;
    let r = guard(|| {
        let mut b = SegBuf::new(bytes, cuts);
        let r = read_from_msg_pack::<T, _>(&mut b);
        left = b.remaining();
        r
    });
    (from_mp(r), left)
}

fn hex(b: &[u8]) -> String {
    b.iter().map(|x| format!("{:02x}", x)).collect()
}

fn unhex(s: &str) -> Vec<u8> {
    (0..s.len() / 2).map(|i| u8::from_str_radix(&s[2 * i..2 * i + 2], 16).unwrap()).collect()
}

// ---------------------------------------------------------------------------------- per-type engine

struct TextResult {
    accept_direct: bool,
    accept_model: bool,
}

trait TypeDyn: Sync + Send {
    fn name(&self) -> &'static str;
    fn covers(&self) -> &'static str;
    fn is_wrapper(&self) -> bool;
    fn count(&self) -> usize;
    fn describe(&self, i: usize) -> String;
    fn value(&self, i: usize) -> Value;
    fn compact(&self, i: usize) -> &str;
    fn printed(&self, i: usize) -> Vec<String>;
    fn check_instance(&self, i: usize, tier: &str, sink: &Sink, c: &Counters);
    fn check_text(&self, text: &str, origin: &dyn Fn() -> String, sink: &Sink, c: &Counters) -> TextResult;
    fn check_msgpack_bytes(&self, bytes: &[u8], origin: &dyn Fn() -> String, sink: &Sink, c: &Counters);
}

struct Holder<T: Battery> {
    name: &'static str,
    covers: &'static str,
    inst: Vec<T>,
    compact: Vec<String>,
}

fn print3<W: StructuralWritable>(x: &W) -> Result<Vec<(&'static str, String)>, String> {
    guard(|| {
        vec![
            ("standard", format!("{}", print_recon(x))),
            ("compact", format!("{}", print_recon_compact(x))),
            ("pretty", format!("{}", print_recon_pretty(x))),
        ]
    })
}

impl<T: Battery> Holder<T> {
    fn new(p: &Pools, cap: usize) -> Holder<T> {
        let inst = T::instances(p);
        let mut keyed: Vec<(usize, String, T)> = inst
            .into_iter()
            .map(|x| {
                let s = guard(|| format!("{}", print_recon_compact(&x))).unwrap_or_else(|_| format!("{:?}", x));
                (s.len(), s, x)
            })
            .collect();
        // smallest first; HashMap-bearing instances may print in either order, the sort key is
        // only used for ordering.
        keyed.sort_by(|a, b| (a.0, &a.1).cmp(&(b.0, &b.1)));
        keyed.dedup_by(|a, b| a.2 == b.2);
        keyed.truncate(cap);
        let compact = keyed.iter().map(|k| k.1.clone()).collect();
        let inst = keyed.into_iter().map(|k| k.2).collect();
        let name: &'static str = Box::leak(T::name().into_boxed_str());
        let covers: &'static str = Box::leak(T::covers().into_boxed_str());
        Holder { name, covers, inst, compact }
    }
}

impl<T: Battery> TypeDyn for Holder<T> {
    fn name(&self) -> &'static str {
        self.name
    }
    fn covers(&self) -> &'static str {
        self.covers
    }
    fn is_wrapper(&self) -> bool {
        T::WRAPPER
    }
    fn count(&self) -> usize {
        self.inst.len()
    }
    fn describe(&self, i: usize) -> String {
        format!("{:?}", self.inst[i])
    }
    fn value(&self, i: usize) -> Value {
        self.inst[i].as_value()
    }
    fn compact(&self, i: usize) -> &str {
        &self.compact[i]
    }
    fn printed(&self, i: usize) -> Vec<String> {
        print3(&self.inst[i]).map(|v| v.into_iter().map(|p| p.1).collect()).unwrap_or_default()
    }

    fn check_instance(&self, i: usize, tier: &str, sink: &Sink, c: &Counters) {
        let x = &self.inst[i];
        let want = x.normal();
        let size = self.compact[i].len();
        let tie = self.compact[i].clone();
        let base = |law: &str, extra: serde_json::Value| {
            json!({"kind": "instance", "type": self.name, "tier": tier, "index": i, "instance": format!("{:?}", x),
                   "law": law, "expected": format!("Ok({:?})", want), "observed": extra,
                   "what": format!("{} violated for an instance of battery type {} ({})", law, self.name, self.covers),
                   "input": format!("{:?}", x)})
        };

        // ---- model
        add(&c.model_evals, 1);
        let v = match guard(|| x.as_value()) {
            Ok(v) => v,
            Err(p) => {
                sink.report("model", format!("type={} law=no_panic op=as_value", self.name), size, &tie, base("no_panic", json!(p)));
                return;
            }
        };
        match guard(|| x.clone().into_value()) {
            Ok(v2) => {
                if v2 != v {
                    sink.report(
                        "model",
                        format!("type={} law=into_value_eq_as_value", self.name),
                        size,
                        &tie,
                        base("into_value_eq_as_value", json!({"as_value": format!("{:?}", v), "into_value": format!("{:?}", v2)})),
                    );
                }
            }
            Err(p) => sink.report("model", format!("type={} law=no_panic op=into_value", self.name), size, &tie, base("no_panic", json!(p))),
        }
        let r1 = from_read(guard(|| T::try_from_value(&v)));
        let r2 = from_read(guard(|| T::try_convert(v.clone())));
        add(&c.model_calls, 4);
        for (via, r) in [("try_from_value", &r1), ("try_convert", &r2)] {
            if *r != Out::Ok(want.clone()) {
                let got = got_class(&want, r);
                sink.report(
                    "model",
                    format!("type={} law=model_roundtrip via={} got={}", self.name, via, got),
                    size,
                    &tie,
                    base("model_roundtrip", json!({"via": via, "value": format!("{:?}", v), "got": r.show()})),
                );
            }
        }

        // ---- recon print / parse
        add(&c.recon_evals, 1);
        match print3(x) {
            Err(p) => sink.report("recon", format!("type={} law=no_panic op=print_recon", self.name), size, &tie, base("no_panic", json!(p))),
            Ok(_) if T::SKIP_RECON_ROUNDTRIP => {}
            Ok(texts) => {
                let mut bad: Vec<(&str, String, String, String)> = vec![];
                for (style, s) in &texts {
                    add(&c.recon_calls, 1);
                    let r = from_parse(guard(|| parse_recognize::<T>(s.as_str(), false)));
                    if r != Out::Ok(want.clone()) {
                        let got = got_class(&want, &r);
                        bad.push((style, s.clone(), got, r.show()));
                    }
                }
                if !bad.is_empty() {
                    // Is the printed text itself unfaithful on the model level (print, parse as
                    // Value, compare with as_value)? Then the failure belongs to the printer /
                    // parser pair (property C09) and is identified by the kind of damage, not by
                    // the battery type that happened to expose it.
                    let fidelity: Option<String> = {
                        let s = &bad[0].1;
                        match from_parse(guard(|| parse_recognize::<Value>(s.as_str(), false))) {
                            Out::Ok(pv) => canon::first_difference(&canon::canon(&pv), &canon::canon(&v)).map(|d| {
                                let leaf = d.rsplit('/').next().unwrap_or("").to_string();
                                let leaf: String = leaf.split('(').next().unwrap_or("").to_string();
                                format!("reparsed_value_differs:{}", leaf)
                            }),
                            ow => Some(format!("reparse_as_value:{}", ow.class())),
                        }
                    };
                    let all_same = bad.len() == texts.len() && bad.iter().all(|b| b.2 == bad[0].2);
                    if let Some(f) = fidelity {
                        sink.report(
                            "recon",
                            format!("law=recon_print_then_parse_faithful_on_model (C09 domain) damage={}", f),
                            size,
                            &tie,
                            base("recon_print_then_parse_faithful_on_model", json!({"text": bad[0].1, "got": bad[0].3, "model": format!("{:?}", v)})),
                        );
                    } else if all_same {
                        sink.report(
                            "recon",
                            format!("type={} law=recon_roundtrip printer=any got={}", self.name, bad[0].2),
                            size,
                            &tie,
                            base("recon_roundtrip", json!({"text": bad[0].1, "got": bad[0].3})),
                        );
                    } else {
                        for b in &bad {
                            sink.report(
                                "recon",
                                format!("type={} law=recon_roundtrip printer={} got={}", self.name, b.0, b.2),
                                size,
                                &tie,
                                base("recon_roundtrip", json!({"text": b.1, "got": b.3})),
                            );
                        }
                    }
                }
            }
        }

        // ---- msgpack
        add(&c.mp_evals, 1);
        let bytes = match mp_write(x) {
            Ok(b) => b,
            Err(e) => {
                sink.report(
                    "msgpack",
                    format!("type={} law=msgpack_write got={}", self.name, variant_name(&e)),
                    size,
                    &tie,
                    base("msgpack_write", json!(e)),
                );
                return;
            }
        };
        if bytes.len() > 3 {
            add(&c.mp_nontrivial, 1);
        }
        let (whole, left) = mp_read::<T>(&bytes, &[]);
        add(&c.mp_calls, 2);
        if whole != Out::Ok(want.clone()) || left != 0 {
            let got = if whole == Out::Ok(want.clone()) { "Ok(unconsumed)".to_string() } else { got_class(&want, &whole) };
            sink.report(
                "msgpack",
                format!("type={} law=msgpack_roundtrip got={}", self.name, got),
                size,
                &tie,
                base("msgpack_roundtrip", json!({"bytes": hex(&bytes), "got": whole.show(), "unconsumed": left})),
            );
        }
        // direct vs via the model, on the typed encoding
        self.check_msgpack_bytes(&bytes, &|| format!("typed encoding of instance {:?}", x), sink, c);
        // the model's own encoding must read back as the instance too
        match mp_write(&v) {
            Err(e) => sink.report(
                "msgpack",
                format!("type={} law=msgpack_write_model got={}", self.name, variant_name(&e)),
                size,
                &tie,
                base("msgpack_write_model", json!(e)),
            ),
            Ok(vb) => {
                add(&c.mp_calls, 2);
                let (r, left) = mp_read::<T>(&vb, &[]);
                if r != Out::Ok(want.clone()) || left != 0 {
                    let got = got_class(&want, &r);
                    sink.report(
                        "msgpack",
                        format!("type={} law=msgpack_model_encoding_roundtrip got={}", self.name, got),
                        size,
                        &tie,
                        base("msgpack_model_encoding_roundtrip", json!({"bytes": hex(&vb), "value": format!("{:?}", v), "got": r.show()})),
                    );
                }
            }
        }
        // every segmentation gives what the contiguous buffer gives
        let n = bytes.len();
        for cuts in vcommon::cuts::chunkings(n, 2, 64) {
            if cuts.is_empty() {
                continue;
            }
            add(&c.mp_chunkings, 1);
            add(&c.mp_calls, 1);
            let (r, l) = mp_read::<T>(&bytes, &cuts);
            if r != whole || l != left {
                let got = if r.is_ok() { "Ok(different)".to_string() } else { r.class() };
                sink.report(
                    "msgpack",
                    format!("type={} law=msgpack_segmented_buf_same_result contiguous={} got={}", self.name, whole.class(), got),
                    size * 1000 + cuts.len(),
                    &tie,
                    base("msgpack_segmented_buf_same_result", json!({"bytes": hex(&bytes), "cuts": cuts, "contiguous": whole.show(), "got": r.show()})),
                );
                break;
            }
        }
        // every strict prefix is rejected, without panicking
        for k in 0..n {
            add(&c.mp_prefixes, 1);
            add(&c.mp_calls, 1);
            let (r, _) = mp_read::<T>(&bytes[..k], &[]);
            match &r {
                Out::Err(..) => {}
                ow => {
                    // a panic on truncated input is a property of the reader, not of the type:
                    // identified by the panic message
                    let sig = match ow {
                        Out::Panic(msg) => {
                            let head: String = msg.chars().take_while(|c| !c.is_ascii_digit() && *c != ':').collect();
                            format!("law=msgpack_truncated_input_rejected got=PANIC({})", head.trim())
                        }
                        _ => format!("type={} law=msgpack_truncated_input_rejected got=Ok", self.name),
                    };
                    sink.report(
                        "msgpack",
                        sig,
                        size * 1000 + k,
                        &tie,
                        base("msgpack_truncated_input_rejected", json!({"bytes": hex(&bytes), "prefix_len": k, "got": r.show()})),
                    );
                    break;
                }
            }
        }
    }

    fn check_text(&self, text: &str, origin: &dyn Fn() -> String, sink: &Sink, c: &Counters) -> TextResult {
        add(&c.text_evals, 1);
        add(&c.text_calls, 2);
        let direct: Out<T> = from_parse(guard(|| parse_recognize::<T>(text, false)));
        let parsed: Out<Value> = from_parse(guard(|| parse_recognize::<Value>(text, false)));
        let detail = |law: &str, d: String, m: String| {
            json!({"kind": "text", "type": self.name, "text": text, "origin": origin(), "law": law,
                   "direct": d, "via_model": m,
                   "what": format!("{}: reading battery type {} ({}) directly from Recon text and via the Value model disagree", law, self.name, self.covers),
                   "input": text})
        };
        let model: Out<T> = match &parsed {
            Out::Ok(v) => {
                add(&c.text_calls, 2);
                let m1 = from_read(guard(|| T::try_from_value(v)));
                let m2 = from_read(guard(|| T::try_convert(v.clone())));
                if m1 != m2 {
                    sink.report(
                        "agree",
                        format!("type={} law=try_convert_eq_try_from_value from_value={} convert={}", self.name, m1.class(), m2.class()),
                        text.len(),
                        text,
                        detail("try_convert_eq_try_from_value", m1.show(), m2.show()),
                    );
                }
                m1
            }
            Out::Err(cl, full) => Out::Err(cl.clone(), full.clone()),
            Out::Panic(p) => Out::Panic(p.clone()),
        };
        for (which, o) in [("direct", direct.class()), ("model", model.class())] {
            if o == "PANIC" {
                sink.report(
                    "agree",
                    format!("type={} law=no_panic path={}", self.name, which),
                    text.len(),
                    text,
                    detail("no_panic", direct.show(), model.show()),
                );
            }
        }
        let agree = match (&direct, &model) {
            (Out::Ok(a), Out::Ok(b)) => a == b,
            (Out::Ok(_), _) | (_, Out::Ok(_)) => false,
            _ => true,
        };
        if !agree {
            let (d, m) = match (&direct, &model) {
                (Out::Ok(a), Out::Ok(b)) => ("Ok".to_string(), format!("Ok(different:{})", differing_fields(a, b))),
                _ => (direct.class(), model.class()),
            };
            sink.report(
                "agree",
                format!("type={} law=recon_direct_eq_via_model direct={} model={}", self.name, d, m),
                text.len(),
                text,
                detail("recon_direct_eq_via_model", direct.show(), model.show()),
            );
        }
        // an accepted text is a re-spelling of the model of the value it was read as
        if let (Out::Ok(x), Out::Ok(v)) = (&direct, &parsed) {
            add(&c.text_calls, 1);
            if let Ok(back) = guard(|| x.as_value()) {
                if let Some(d) = canon_difference::<T>(v, &back) {
                    sink.report(
                        "agree",
                        format!("type={} law=accepted_input_matches_model source=recon at={}", self.name, d),
                        text.len(),
                        text,
                        json!({"kind": "text", "type": self.name, "text": text, "origin": origin(), "law": "accepted_input_matches_model",
                               "input_as_value": format!("{:?}", v), "read_as": format!("{:?}", x), "model_of_read": format!("{:?}", back),
                               "what": format!("battery type {} ({}) accepts a Recon text that is not a re-spelling of the model of the value it is read as (a field was invented, dropped or taken from the wrong place)", self.name, self.covers),
                               "input": text}),
                    );
                }
            }
        }
        TextResult { accept_direct: direct.is_ok(), accept_model: model.is_ok() }
    }

    fn check_msgpack_bytes(&self, bytes: &[u8], origin: &dyn Fn() -> String, sink: &Sink, c: &Counters) {
        add(&c.mpm_evals, 1);
        add(&c.mpm_calls, 2);
        let (direct, _) = mp_read::<T>(bytes, &[]);
        let (parsed, _) = mp_read::<Value>(bytes, &[]);
        let model: Out<T> = match &parsed {
            Out::Ok(v) => {
                add(&c.mpm_calls, 1);
                from_read(guard(|| T::try_from_value(v)))
            }
            Out::Err(cl, full) => Out::Err(cl.clone(), full.clone()),
            Out::Panic(p) => Out::Panic(p.clone()),
        };
        if direct.is_ok() || model.is_ok() {
            add(&c.mpm_accept_any, 1);
        }
        let agree = match (&direct, &model) {
            (Out::Ok(a), Out::Ok(b)) => a == b,
            (Out::Ok(_), _) | (_, Out::Ok(_)) => false,
            (Out::Panic(_), _) | (_, Out::Panic(_)) => false,
            _ => true,
        };
        if let (Out::Ok(x), Out::Ok(v)) = (&direct, &parsed) {
            add(&c.mpm_calls, 1);
            if let Ok(back) = guard(|| x.as_value()) {
                if let Some(d) = canon_difference::<T>(v, &back) {
                    let h = hex(bytes);
                    sink.report(
                        "msgpack_agree",
                        format!("type={} law=accepted_input_matches_model source=msgpack at={}", self.name, d),
                        bytes.len(),
                        &h,
                        json!({"kind": "msgpack_bytes", "type": self.name, "hex": h, "origin": origin(), "law": "accepted_input_matches_model",
                               "input_as_value": format!("{:?}", v), "read_as": format!("{:?}", x), "model_of_read": format!("{:?}", back),
                               "what": format!("battery type {} ({}) accepts a MessagePack input that is not a re-spelling of the model of the value it is read as", self.name, self.covers),
                               "input": h}),
                    );
                }
            }
        }
        if !agree {
            let (d, m) = match (&direct, &model) {
                (Out::Ok(a), Out::Ok(b)) => ("Ok".to_string(), format!("Ok(different:{})", differing_fields(a, b))),
                _ => (direct.class(), model.class()),
            };
            let h = hex(bytes);
            sink.report(
                "msgpack_agree",
                format!("type={} law=msgpack_direct_eq_via_model direct={} model={}", self.name, d, m),
                bytes.len(),
                &h,
                json!({"kind": "msgpack_bytes", "type": self.name, "hex": h, "origin": origin(), "law": "msgpack_direct_eq_via_model",
                       "direct": direct.show(), "via_model": model.show(), "as_value": parsed.show(),
                       "what": format!("reading battery type {} ({}) directly from MessagePack and via the Value model disagree", self.name, self.covers),
                       "input": h}),
            );
        }
    }
}

macro_rules! registry {
    ($p:expr, $cap:expr; plain: [$($t:ty),* $(,)?]; wrapped: [$($w:ty),* $(,)?]) => {
        vec![
            $(Box::new(Holder::<$t>::new($p, $cap)) as Box<dyn TypeDyn>,)*
            $(Box::new(Holder::<$w>::new($p, $cap)) as Box<dyn TypeDyn>,)*
            $(Box::new(Holder::<Multi<$w>>::new($p, $cap)) as Box<dyn TypeDyn>,)*
            $(Box::new(Holder::<Places<$w>>::new($p, $cap)) as Box<dyn TypeDyn>,)*
            $(Box::new(Holder::<Bodies<$w>>::new($p, $cap)) as Box<dyn TypeDyn>,)*
        ]
    };
}

/// `plain`: built-in implementations, and the derived types whose own instances already violate
/// the property on the unchanged tree (known findings D1, D2, D8, D9, D11) - wrapping them would
/// only re-report the element's defect under every wrapper. `wrapped`: every other derived type,
/// checked on its own and as the element type of `Multi`, `Places` and `Bodies`.
fn registry(p: &Pools, cap: usize) -> Vec<Box<dyn TypeDyn>> {
    registry!(p, cap;
        plain: [
            AttrColls, BodyOpt, BodyBlob, BodyBig, UnitAttr, ValEnum,
            i32, u64, f64, String, BigInt, BigUint, Vec<u8>, Vec<i32>, Option<i32>, Option<Named>,
            HashMap<String, i32>, (i32, String), std::time::Duration, swimos_model::Timestamp,
            swimos_utilities::future::RetryStrategy, Vec<Named>, Value,
        ];
        wrapped: [
            Unit0, UnitTagged, Tup1, NewT, NewRec, Tup2, TupSkip, TupHdr, TupRen,
            Named, Renamed, ConvNames,
            Hdr1, Hdr2, Hdr2Same, HdrBody, HdrBodySlots, HdrBody2Slots, HdrBodyAttr, HdrVec, HdrRec,
            Attr1, Attr2, Body1, BodyRec, BodyVec, BodyMap,
            Opts, OptHdr, OptHdrBody, Colls, IntMap, Prims, Bigs,
            Gen<i32>, Gen<Named>, Gen<Vec<String>>, GenBody<E1>, Nest1, Nest2, VecStruct,
            E1, E2, E3, Tagged, TaggedHb, EnumHolder,
            ValSlot, ValBody, ValAttr, ValHdrBody, ValHdr,
            Builtins, BuiltinPlaces, NestedColls,
        ]
    )
}

/// `type=Multi<Named> rest` -> (`type=Multi<*> rest`, `Named`) for the wrapper types.
fn abstract_wrapper(sig: &str) -> Option<(String, String)> {
    for w in ["Multi", "Places", "Bodies"] {
        let pre = format!("type={}<", w);
        if let Some(rest) = sig.strip_prefix(&pre) {
            let mut depth = 1usize;
            for (i, ch) in rest.char_indices() {
                match ch {
                    '<' => depth += 1,
                    '>' => {
                        depth -= 1;
                        if depth == 0 {
                            return Some((format!("type={}<*>{}", w, &rest[i + 1..]), rest[..i].to_string()));
                        }
                    }
                    _ => {}
                }
            }
        }
    }
    None
}

/// A finding on a wrapper type that shows up for (at least three of) the structurally plainest
/// element types is a finding about the wrapper's own collections / placements, not about the
/// element type: it is reported once, as `type=Multi<*> ...`, with the smallest witness.
const PROBE_ELEMENTS: [&str; 4] = ["Unit0", "Named", "Tup2", "E1"];

type Found = BTreeMap<String, (usize, String, &'static str, serde_json::Value)>;

fn collapse_wrapper_findings(found: Found) -> Found {
    let mut groups: BTreeMap<String, Vec<(String, String)>> = BTreeMap::new();
    for sig in found.keys() {
        if let Some((abs, elem)) = abstract_wrapper(sig) {
            groups.entry(abs).or_default().push((elem, sig.clone()));
        }
    }
    let mut out = found;
    for (abs, members) in groups {
        let probes = PROBE_ELEMENTS.iter().filter(|p| members.iter().any(|(e, _)| e == *p)).count();
        if probes >= 3 {
            let mut best: Option<(usize, String, &'static str, serde_json::Value)> = None;
            let n = members.len();
            for (_, sig) in &members {
                if let Some(f) = out.remove(sig) {
                    let better = match &best {
                        None => true,
                        Some(b) => (f.0, &f.1) < (b.0, &b.1),
                    };
                    if better {
                        best = Some(f);
                    }
                }
            }
            if let Some(mut b) = best {
                if let Some(obj) = b.3.as_object_mut() {
                    obj.insert("element_types_affected".into(), json!(n));
                }
                out.insert(abs, b);
            }
        }
    }
    out
}

// ---------------------------------------------------------------------------------- main

fn main() {
    std::panic::set_hook(Box::new(|_| {}));
    let ctx = Ctx::from_env("C16");
    let sink = Sink::new();
    let counters = Counters::default();

    if let Some(r) = ctx.replay_request() {
        let d = r["detail"].clone();
        let tname = d["type"].as_str().unwrap_or("").to_string();
        let thorough = d["tier"].as_str() == Some("thorough");
        let reg = registry(&Pools, usize::MAX);
        let Some(t) = reg.iter().find(|t| t.name() == tname) else {
            vcommon::machinery_failure(&format!("replay: unknown battery type {}", tname));
        };
        match d["kind"].as_str() {
            Some("instance") => {
                let want = d["instance"].as_str().unwrap_or("");
                let idx = (0..t.count()).find(|i| t.describe(*i) == want);
                match idx {
                    Some(i) => t.check_instance(i, if thorough { "thorough" } else { "quick" }, &sink, &counters),
                    None => vcommon::machinery_failure("replay: instance not found in the battery"),
                }
            }
            Some("text") => {
                t.check_text(d["text"].as_str().unwrap_or(""), &|| "replay".to_string(), &sink, &counters);
            }
            Some("msgpack_bytes") => {
                t.check_msgpack_bytes(&unhex(d["hex"].as_str().unwrap_or("")), &|| "replay".to_string(), &sink, &counters);
            }
            _ => vcommon::machinery_failure("replay: unknown kind"),
        }
        let want_sig = r["signature"].as_str().unwrap_or("").to_string();
        let found = sink.found.into_inner().unwrap();
        let mut reproduced = false;
        for (sig, (_, _, leg, detail)) in found {
            // the replayed case may break other laws too; only the requested one is reported
            let abstracted = abstract_wrapper(&sig).map(|a| a.0);
            if sig == want_sig || abstracted.as_deref() == Some(want_sig.as_str()) {
                let sig = want_sig.clone();
                reproduced = true;
                ctx.violation(leg, &sig, detail);
            }
        }
        eprintln!("replay: signature {} {}", want_sig, if reproduced { "REPRODUCED" } else { "not reproduced" });
        ctx.finish("model_checking", "replay");
    }

    let thorough = !ctx.quick();
    let tier = ctx.tier.name();
    let pools = Pools;
    let cap = 10_000usize;
    let t_build = Instant::now();
    let reg = registry(&pools, cap);
    let ntypes = reg.len();
    let total_inst: usize = reg.iter().map(|t| t.count()).sum();
    eprintln!("[C16] battery: {} types, {} instances ({:.1}s)", ntypes, total_inst, t_build.elapsed().as_secs_f64());

    // ------------------------------------------------ legs 1-3: per-instance laws
    let t0 = Instant::now();
    let mut work: Vec<(usize, usize)> = vec![];
    for (ti, t) in reg.iter().enumerate() {
        for i in 0..t.count() {
            work.push((ti, i));
        }
    }
    // interleave so that threads get a mix of types
    work.sort_by_key(|(ti, i)| (*i, *ti));
    vcommon::par_map(&work, vcommon::ncpu(), |_, &(ti, i)| {
        reg[ti].check_instance(i, tier, &sink, &counters);
    });
    let wall_inst = t0.elapsed().as_secs_f64();
    let ld = |c: &AtomicU64| c.load(Ordering::Relaxed);
    let per_type: Vec<serde_json::Value> = reg.iter().map(|t| json!({"type": t.name(), "covers": t.covers(), "instances": t.count()})).collect();
    let sample_inst = |k: usize| -> serde_json::Value {
        let t = &reg[k % ntypes];
        let i = t.count() - 1;
        json!({"type": t.name(), "instance": t.describe(i), "recon": t.compact(i)})
    };
    ctx.add_leg(Leg {
        name: "model_roundtrip".into(),
        engine: "E4-enum".into(),
        states: total_inst as u64,
        transitions: ld(&counters.model_calls),
        evaluations: ld(&counters.model_evals),
        distinct_nontrivial: reg.iter().map(|t| (0..t.count()).filter(|i| matches!(t.value(*i), Value::Record(a, _) if !a.is_empty())).count() as u64).sum(),
        rule: "every instance of every battery type: as_value / into_value / try_from_value / try_convert; non-trivial = instances whose model is a record with at least one attribute".into(),
        samples: vec![sample_inst(12), sample_inst(21), sample_inst(44)],
        exhaustive: true,
        bounds: json!({"types": ntypes, "instances": total_inst, "per_type_cap": cap, "battery": per_type}),
        wall_s: wall_inst / 3.0,
    });
    ctx.add_leg(Leg {
        name: "recon_roundtrip".into(),
        engine: "E4-enum".into(),
        states: total_inst as u64,
        transitions: ld(&counters.recon_calls),
        evaluations: ld(&counters.recon_calls),
        distinct_nontrivial: (0..ntypes).map(|k| (0..reg[k].count()).filter(|i| reg[k].compact(*i).contains('(')).count() as u64).sum(),
        rule: "every instance printed with print_recon / print_recon_compact / print_recon_pretty and read back with parse_recognize::<T>; non-trivial = printed form has an attribute with a body".into(),
        samples: vec![sample_inst(15), sample_inst(30)],
        exhaustive: true,
        bounds: json!({"types": ntypes, "instances": total_inst, "printers": 3}),
        wall_s: wall_inst / 3.0,
    });
    ctx.add_leg(Leg {
        name: "msgpack".into(),
        engine: "E4-enum+cuts".into(),
        states: total_inst as u64,
        transitions: ld(&counters.mp_calls),
        evaluations: ld(&counters.mp_evals) + ld(&counters.mp_chunkings) + ld(&counters.mp_prefixes),
        distinct_nontrivial: ld(&counters.mp_nontrivial),
        rule: "every instance written with MsgPackInterpreter and read with read_from_msg_pack (typed encoding and the model's encoding), then re-read under every 1-cut and 2-cut (len<=64) segmentation of the buffer plus all-singletons, then every strict prefix; non-trivial = encodings longer than 3 bytes".into(),
        samples: vec![json!({"segmentations": ld(&counters.mp_chunkings), "prefixes": ld(&counters.mp_prefixes)}), sample_inst(35)],
        exhaustive: true,
        bounds: json!({"instances": total_inst, "max_cuts": 2, "two_cut_limit_bytes": 64, "note": "read_from_msg_pack is one-shot (not resumable); segmentation is exercised through a multi-segment bytes::Buf"}),
        wall_s: wall_inst / 3.0,
    });

    // ------------------------------------------------ legs 4/5: the two reading paths on a text set per type
    // One work item per (type, instance), smallest instances first: its printed forms, every
    // single-edit Value mutation (2 printers), every single-token mutation of its compact text;
    // in the thorough tier additionally every *pair* of Value edits for the first `n_double`
    // instances of each type. One more work item per type for the foreign texts. A text is
    // evaluated once per type (global set of 128-bit text hashes).
    let t1 = Instant::now();
    let n_double = if thorough { 60usize } else { 0usize };
    let n_subst = if thorough { usize::MAX } else { 30usize };
    let n_single = if thorough { usize::MAX } else { 60usize };
    // wrapper types (Multi / Places / Bodies of every derived type): large instances, edited
    // singly only
    let n_single_wrapper = if thorough { usize::MAX } else { 4usize };
    let n_foreign = 40usize;
    let wall_cap_s = if thorough { 720.0 } else { 45.0 };
    let seen = Seen::new();
    let stop = AtomicBool::new(false);
    let items_done = AtomicU64::new(0);
    let items_skipped = AtomicU64::new(0);
    let foreign: Vec<Vec<String>> = reg
        .iter()
        .map(|t| (0..t.count().min(n_foreign)).flat_map(|i| t.printed(i).into_iter().take(1)).collect())
        .collect();
    // work: (type, Some(instance)) or (type, None) for the foreign texts
    let mut twork: Vec<(usize, Option<usize>)> = (0..ntypes).map(|ti| (ti, None)).collect();
    twork.extend(work.iter().map(|(ti, i)| (*ti, Some(*i))));
    let eval_text = |ti: usize, text: &str, printed: bool, origin: &dyn Fn() -> String| {
        if !seen.insert(ti, text.as_bytes()) {
            return;
        }
        let r = reg[ti].check_text(text, origin, &sink, &counters);
        if r.accept_direct || r.accept_model {
            add(&counters.text_accept_any, 1);
            if !printed {
                add(&counters.text_accept_mutated, 1);
            }
        }
        if r.accept_direct && r.accept_model {
            add(&counters.text_accept_both, 1);
        }
    };
    let eval_bytes = |ti: usize, bytes: &[u8], origin: &dyn Fn() -> String| {
        if seen.insert(ti + 1000, bytes) {
            reg[ti].check_msgpack_bytes(bytes, origin, &sink, &counters);
        }
    };
    vcommon::par_map(&twork, vcommon::ncpu(), |_, &(ti, inst)| {
        if stop.load(Ordering::Relaxed) {
            items_skipped.fetch_add(1, Ordering::Relaxed);
            return;
        }
        let t = &reg[ti];
        match inst {
            None => {
                for (tj, f) in foreign.iter().enumerate() {
                    if tj != ti {
                        for s in f {
                            eval_text(ti, s, false, &|| format!("printed form of an instance of foreign type {}", reg[tj].name()));
                        }
                    }
                }
            }
            Some(i) => {
                for (k, s) in t.printed(i).iter().enumerate() {
                    eval_text(ti, s, true, &|| format!("printed form {} of instance {}", k, t.describe(i)));
                }
                let wrapper = t.is_wrapper();
                if i >= if wrapper { n_single_wrapper } else { n_single } {
                    items_done.fetch_add(1, Ordering::Relaxed);
                    return;
                }
                let v = t.value(i);
                let singles = mutate::value_mutations(&v, 2);
                for (op, mv) in &singles {
                    if let Ok(texts) = print3(mv) {
                        for (style, s) in texts.iter().take(2) {
                            eval_text(ti, s, false, &|| format!("Value edit {} of instance {} ({} printer)", op, t.describe(i), style));
                        }
                    }
                    if let Ok(bytes) = mp_write(mv) {
                        eval_bytes(ti, &bytes, &|| format!("Value edit {} of instance {}", op, t.describe(i)));
                    }
                }
                for (op, s) in mutate::token_mutations(t.compact(i), i < n_subst && !wrapper) {
                    eval_text(ti, &s, false, &|| format!("token edit {} of {}", op, t.compact(i)));
                }
                if i < n_double && !wrapper {
                    for (op1, mv) in &singles {
                        for (op2, mv2) in mutate::value_mutations(mv, 1) {
                            if let Ok(s) = guard(|| format!("{}", print_recon_compact(&mv2))) {
                                eval_text(ti, &s, false, &|| format!("Value edits {} then {} of instance {}", op1, op2, t.describe(i)));
                            }
                            if let Ok(bytes) = mp_write(&mv2) {
                                eval_bytes(ti, &bytes, &|| format!("Value edits {} then {} of instance {}", op1, op2, t.describe(i)));
                            }
                        }
                    }
                }
            }
        }
        items_done.fetch_add(1, Ordering::Relaxed);
        if t1.elapsed().as_secs_f64() > wall_cap_s {
            stop.store(true, Ordering::Relaxed);
        }
    });
    let skipped = items_skipped.load(Ordering::Relaxed);
    let wall_text = t1.elapsed().as_secs_f64();
    let text_samples: Vec<serde_json::Value> = [3usize, 13, 28]
        .iter()
        .map(|k| {
            let t = &reg[k % ntypes];
            let i = t.count() / 2;
            let ms = mutate::value_mutations(&t.value(i), 2);
            let (op, mv) = &ms[ms.len() / 2];
            json!({"type": t.name(), "text": format!("{}", print_recon_compact(mv)), "origin": format!("Value edit {} of instance {}", op, t.describe(i))})
        })
        .collect();
    ctx.add_leg(Leg {
        name: "recon_direct_vs_model".into(),
        engine: "E4-enum".into(),
        states: ld(&counters.text_evals),
        transitions: ld(&counters.text_calls),
        evaluations: ld(&counters.text_evals),
        distinct_nontrivial: ld(&counters.text_accept_any),
        rule: format!(
            "per type, every distinct text of: 3 printed forms of every instance; 2 printed forms of every single-element Value edit (delete/duplicate/transpose/retag/rekey/unkey/replace/insert, nesting<=2) and every single-token deletion/duplication/transposition of the compact text of the first {} instances (smallest first); every single-token substitution (7 punctuation tokens, 3 literals) for the first {} instances; every pair of Value edits of the first {} instances; printed forms of the first {} instances of every other battery type. non-trivial = accepted by at least one reading path ({} accepted by both; {} of the accepted texts are edited or foreign)",
            n_single.min(cap), n_subst.min(cap), n_double, n_foreign, ld(&counters.text_accept_both), ld(&counters.text_accept_mutated)
        ),
        samples: text_samples,
        exhaustive: skipped == 0,
        bounds: json!({"types": ntypes, "instances": total_inst, "double_edit_instances_per_type": n_double, "foreign_instances_per_type": n_foreign,
                       "token_substitution_instances_per_type": n_subst.min(cap), "single_edit_instances_per_type": n_single.min(cap), "single_edit_instances_per_wrapper_type": n_single_wrapper.min(cap), "wrapper_types": "no token substitution, no double edits", "value_edit_depth": 2, "work_items_done": items_done.load(Ordering::Relaxed), "work_items_skipped_by_wall_cap": skipped,
                       "wall_cap_s": wall_cap_s, "order": "instances smallest first, interleaved over types"}),
        wall_s: wall_text * 0.7,
    });
    ctx.add_leg(Leg {
        name: "msgpack_direct_vs_model".into(),
        engine: "E4-enum".into(),
        states: ld(&counters.mpm_evals),
        transitions: ld(&counters.mpm_calls),
        evaluations: ld(&counters.mpm_evals),
        distinct_nontrivial: ld(&counters.mpm_accept_any),
        rule: format!("distinct MessagePack encodings of every instance, of every single-element Value edit of the first {} instances per type and of every pair of edits of the first {}, read directly as T and as Value-then-T; non-trivial = accepted by at least one path", n_single.min(cap), n_double),
        samples: vec![json!({"type": reg[9].name(), "bytes": mp_write(&reg[9].value(0)).map(|b| hex(&b)).unwrap_or_default()})],
        exhaustive: skipped == 0,
        bounds: json!({"double_edit_instances_per_type": n_double, "value_edit_depth": 2, "work_items_skipped_by_wall_cap": skipped}),
        wall_s: wall_text * 0.3,
    });

    let found = collapse_wrapper_findings(sink.found.into_inner().unwrap());
    for (sig, (_, _, leg, detail)) in found {
        ctx.violation(leg, &sig, detail);
    }
    ctx.assume("a fixed battery of derived types stands for 'every type implementing Form'; field values come from small boundary pools");
    ctx.assume("std HashMap iteration order is fixed by the detrand getrandom interposer (it only affects the order in which map entries are printed)");
    ctx.assume("read_from_msg_pack is a one-shot reader over a Buf: 'chunking' is exercised as a multi-segment Buf, not as resumption");
    ctx.finish(
        "model_checking",
        "bounded-exhaustive enumeration of all instances of a battery of Form-deriving types and of all single-edit mutations of their Recon texts, checking the conversion / recogniser / MessagePack round trips and the agreement of the two reading paths on the real implementation",
    );
}

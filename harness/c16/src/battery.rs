//! The battery: types deriving `swimos_form::Form` that cover the supported attribute
//! combinations, with finite instance enumerators (cartesian products of small value pools).

use chrono::{TimeZone, Utc};
use num_bigint::{BigInt, BigUint};
use std::collections::HashMap;
use std::fmt::Debug;
use std::num::NonZeroUsize;
use std::sync::Arc;
use std::time::Duration;
use swimos_form::{Form, Tag};
use swimos_model::{Attr, Blob, Item, Text, Timestamp, Value};
use swimos_utilities::future::{Quantity, RetryStrategy};

/// A battery type. `instances` enumerates every instance with field values from the pools;
/// `normal` is what a faithful read of the written form must produce (identity unless the type
/// has `skip` fields, which are documented to come back as `Default`).
pub trait Battery: Form + Clone + PartialEq + Debug + Send + Sync + 'static {
    const NAME: &'static str;
    /// Attribute combination this type is in the battery for (evidence only).
    const COVERS: &'static str;
    /// Canonical paths (see `canon.rs`) at which this type holds a `HashMap`: reading a map
    /// keeps the last of several entries with the same key, which is not counted as dropping
    /// information.
    const MAP_PATHS: &'static [&'static str] = &[];
    /// Canonical paths of sub-values read by the hand-written, deliberately lenient recognizers
    /// of the configuration types (`Duration`, `RetryStrategy`: missing fields take defaults,
    /// repeated fields overwrite); they are excluded from the "accepted input is a re-spelling
    /// of the model" comparison (the round-trip laws still cover them).
    const OPAQUE_PATHS: &'static [&'static str] = &[];
    /// The body of the record is a field of type `Value` (see `body_normal`).
    const VALUE_BODY: bool = false;
    /// Printing and re-reading the type is another property's subject (C09 for `Value`).
    const SKIP_RECON_ROUNDTRIP: bool = false;
    /// A collection / placement wrapper around another battery type (see the end of this file).
    const WRAPPER: bool = false;
    fn name() -> String {
        Self::NAME.to_string()
    }
    fn covers() -> String {
        Self::COVERS.to_string()
    }
    fn is_map_path(path: &str) -> bool {
        Self::MAP_PATHS.contains(&path)
    }
    fn is_opaque_path(path: &str) -> bool {
        Self::OPAQUE_PATHS.contains(&path)
    }
    fn instances(p: &Pools) -> Vec<Self>;
    fn normal(&self) -> Self {
        self.clone()
    }
}

/// Value pools: a few boundary values per field type (the same in both tiers; the tiers differ
/// in the depth of the text mutations).
pub struct Pools;

impl Pools {
    fn sel<T: Clone>(&self, base: &[T], extra: &[T]) -> Vec<T> {
        let mut v = base.to_vec();
        v.extend_from_slice(extra);
        v
    }
    pub fn i32s(&self) -> Vec<i32> {
        self.sel(&[0, 1, -2], &[i32::MAX, i32::MIN])
    }
    pub fn i64s(&self) -> Vec<i64> {
        self.sel(&[0, -1, i64::MAX], &[i64::MIN, 1 << 40])
    }
    pub fn u32s(&self) -> Vec<u32> {
        self.sel(&[0, u32::MAX], &[1])
    }
    pub fn u64s(&self) -> Vec<u64> {
        self.sel(&[0, 1, u64::MAX], &[1 << 63])
    }
    pub fn f64s(&self) -> Vec<f64> {
        self.sel(&[0.0, 1.5, -1.0e10], &[1.0, f64::MIN_POSITIVE])
    }
    pub fn bools(&self) -> Vec<bool> {
        vec![false, true]
    }
    pub fn strings(&self) -> Vec<String> {
        self.sel(
            &["".to_string(), "a".to_string(), "b c".to_string()],
            &["true".to_string(), "q\"\\\u{e9}".to_string()],
        )
    }
    pub fn opt_i32s(&self) -> Vec<Option<i32>> {
        self.sel(&[None, Some(0), Some(3)], &[Some(-1)])
    }
    pub fn opt_strings(&self) -> Vec<Option<String>> {
        self.sel(&[None, Some("".to_string()), Some("x".to_string())], &[Some("b c".to_string())])
    }
    pub fn vec_i32s(&self) -> Vec<Vec<i32>> {
        self.sel(&[vec![], vec![1], vec![1, 2]], &[vec![0, 0, 0]])
    }
    pub fn vec_strings(&self) -> Vec<Vec<String>> {
        self.sel(&[vec![], vec!["a".to_string()], vec!["".to_string(), "b c".to_string()]], &[])
    }
    pub fn vec_opt_i32s(&self) -> Vec<Vec<Option<i32>>> {
        self.sel(&[vec![], vec![None], vec![Some(1), None]], &[vec![None, None]])
    }
    pub fn maps(&self) -> Vec<HashMap<String, i32>> {
        let m = |kv: &[(&str, i32)]| kv.iter().map(|(k, v)| (k.to_string(), *v)).collect::<HashMap<_, _>>();
        self.sel(&[m(&[]), m(&[("a", 1)]), m(&[("a", 1), ("b c", 2)])], &[m(&[("", 0)])])
    }
    pub fn int_maps(&self) -> Vec<HashMap<i32, String>> {
        let m = |kv: &[(i32, &str)]| kv.iter().map(|(k, v)| (*k, v.to_string())).collect::<HashMap<_, _>>();
        self.sel(&[m(&[]), m(&[(1, "a")]), m(&[(1, "a"), (-2, "")])], &[])
    }
    pub fn blobs(&self) -> Vec<Vec<u8>> {
        self.sel(&[vec![], vec![0], vec![1, 255]], &[vec![0; 33]])
    }
    pub fn bigints(&self) -> Vec<BigInt> {
        self.sel(&[BigInt::from(0), BigInt::from(1), BigInt::from(-1), BigInt::from(2).pow(70)], &[-BigInt::from(2).pow(70)])
    }
    pub fn biguints(&self) -> Vec<BigUint> {
        self.sel(&[BigUint::from(0u32), BigUint::from(2u32).pow(70)], &[BigUint::from(1u32)])
    }
    /// Sub-selection of an inner type's instances for use as a field pool of an outer type
    /// (nesting): the first `n` plus the last one.
    pub fn inner<T: Battery>(&self, _n_small: usize, n: usize) -> Vec<T> {
        let all = T::instances(self);
        if all.len() <= n + 1 {
            all
        } else {
            let mut v: Vec<T> = all[..n].to_vec();
            v.push(all[all.len() - 1].clone());
            v
        }
    }
}

macro_rules! cart {
    ($out:ident; $($v:ident in $pool:expr),* ; $e:expr) => { cart!(@go $out; [] $($v in $pool),* ; $e) };
    (@go $out:ident; [$($b:ident)*] ; $e:expr) => { { $(let $b = $b.clone();)* $out.push($e); } };
    (@go $out:ident; [$($b:ident)*] $v:ident in $pool:expr $(, $vs:ident in $pools:expr)* ; $e:expr) => {
        for $v in $pool.iter() { cart!(@go $out; [$($b)* $v] $($vs in $pools),* ; $e); }
    };
}

macro_rules! battery {
    ($ty:ty, $name:expr, $covers:expr, |$p:ident, $out:ident| $body:block) => {
        battery!($ty, $name, $covers, maps = [], |$p, $out| $body);
    };
    ($ty:ty, $name:expr, $covers:expr, maps = [$($m:expr),*], |$p:ident, $out:ident| $body:block) => {
        battery!($ty, $name, $covers, maps = [$($m),*], opaque = [], |$p, $out| $body);
    };
    ($ty:ty, $name:expr, $covers:expr, maps = [$($m:expr),*], opaque = [$($o:expr),*], |$p:ident, $out:ident| $body:block) => {
        impl Battery for $ty {
            const NAME: &'static str = $name;
            const COVERS: &'static str = $covers;
            const MAP_PATHS: &'static [&'static str] = &[$($m),*];
            const OPAQUE_PATHS: &'static [&'static str] = &[$($o),*];
            #[allow(unused_variables, unused_mut)]
            fn instances($p: &Pools) -> Vec<Self> {
                let mut $out: Vec<Self> = vec![];
                $body
                $out
            }
        }
    };
}

// ------------------------------------------------------------------ unit / newtype / tuple

#[derive(Form, Debug, PartialEq, Clone)]
pub struct Unit0;
battery!(Unit0, "Unit0", "unit struct", |p, out| { out.push(Unit0); });

#[derive(Form, Debug, PartialEq, Clone)]
#[form(tag = "unit-tag")]
pub struct UnitTagged;
battery!(UnitTagged, "UnitTagged", "unit struct, tag needing quotes", |p, out| { out.push(UnitTagged); });

#[derive(Form, Debug, PartialEq, Clone)]
pub struct Tup1(pub i32);
battery!(Tup1, "Tup1", "tuple struct, 1 field", |p, out| { cart!(out; a in p.i32s(); Tup1(a)); });

#[derive(Form, Debug, PartialEq, Clone)]
#[form(newtype)]
pub struct NewT(pub String);
battery!(NewT, "NewT", "newtype of primitive", |p, out| { cart!(out; a in p.strings(); NewT(a)); });

#[derive(Form, Debug, PartialEq, Clone)]
#[form(newtype)]
pub struct NewRec {
    pub inner: Named,
}
battery!(NewRec, "NewRec", "newtype of record (named field)", |p, out| { cart!(out; a in p.inner::<Named>(4, 100); NewRec { inner: a }); });

#[derive(Form, Debug, PartialEq, Clone)]
pub struct Tup2(pub i32, pub String);
battery!(Tup2, "Tup2", "tuple struct, 2 fields", |p, out| { cart!(out; a in p.i32s(), b in p.strings(); Tup2(a, b)); });

#[derive(Form, Debug, PartialEq, Clone)]
pub struct TupSkip(pub i32, #[form(skip)] pub i32, pub String);
impl Battery for TupSkip {
    const NAME: &'static str = "TupSkip";
    const COVERS: &'static str = "tuple struct with skip";
    fn instances(p: &Pools) -> Vec<Self> {
        let mut out = vec![];
        cart!(out; a in p.i32s(), s in [0, 9], b in p.strings(); TupSkip(a, s, b));
        out
    }
    fn normal(&self) -> Self {
        TupSkip(self.0, 0, self.2.clone())
    }
}

#[derive(Form, Debug, PartialEq, Clone)]
pub struct TupHdr(#[form(header, name = "k")] pub i32, pub String, pub bool);
battery!(TupHdr, "TupHdr", "tuple struct with named header field", |p, out| { cart!(out; a in p.i32s(), b in p.strings(), c in p.bools(); TupHdr(a, b, c)); });

#[derive(Form, Debug, PartialEq, Clone)]
pub struct TupRen(#[form(name = "first")] pub i32, #[form(name = "second")] pub String);
battery!(TupRen, "TupRen", "tuple struct with renamed (labelled) fields", |p, out| { cart!(out; a in p.i32s(), b in p.strings(); TupRen(a, b)); });

// ------------------------------------------------------------------ named / rename / convention

#[derive(Form, Debug, PartialEq, Clone)]
pub struct Named {
    pub a: i32,
    pub b: String,
}
battery!(Named, "Named", "named struct", |p, out| { cart!(out; a in p.i32s(), b in p.strings(); Named { a, b }); });

#[derive(Form, Debug, PartialEq, Clone)]
#[form(tag = "ren")]
pub struct Renamed {
    #[form(name = "x")]
    pub a: i32,
    pub b: bool,
    #[form(skip)]
    pub s: String,
}
impl Battery for Renamed {
    const NAME: &'static str = "Renamed";
    const COVERS: &'static str = "tag, rename, skip";
    fn instances(p: &Pools) -> Vec<Self> {
        let mut out = vec![];
        cart!(out; a in p.i32s(), b in p.bools(), s in ["".to_string(), "k".to_string()]; Renamed { a, b, s });
        out
    }
    fn normal(&self) -> Self {
        Renamed { a: self.a, b: self.b, s: String::new() }
    }
}

#[derive(Form, Debug, PartialEq, Clone)]
#[form(convention = "kebab", fields_convention = "camel")]
pub struct ConvNames {
    pub first_field: i32,
    #[form(header)]
    pub second_field: String,
}
battery!(ConvNames, "ConvNames", "convention, fields_convention", |p, out| { cart!(out; a in p.i32s(), b in p.strings(); ConvNames { first_field: a, second_field: b }); });

// ------------------------------------------------------------------ header / header_body / attr / body

#[derive(Form, Debug, PartialEq, Clone)]
pub struct Hdr1 {
    #[form(header)]
    pub h: i32,
    pub a: String,
}
battery!(Hdr1, "Hdr1", "header (1 slot)", |p, out| { cart!(out; h in p.i32s(), a in p.strings(); Hdr1 { h, a }); });

#[derive(Form, Debug, PartialEq, Clone)]
pub struct Hdr2 {
    #[form(header)]
    pub h1: i32,
    #[form(header)]
    pub h2: String,
    pub a: i32,
}
battery!(Hdr2, "Hdr2", "header (2 slots)", |p, out| { cart!(out; h1 in p.i32s(), h2 in p.strings(), a in p.i32s(); Hdr2 { h1, h2, a }); });

#[derive(Form, Debug, PartialEq, Clone)]
pub struct Hdr2Same {
    #[form(header)]
    pub h1: i32,
    #[form(header)]
    pub h2: i32,
}
battery!(Hdr2Same, "Hdr2Same", "header (2 slots of the same type), no body fields", |p, out| { cart!(out; h1 in p.i32s(), h2 in p.i32s(); Hdr2Same { h1, h2 }); });

#[derive(Form, Debug, PartialEq, Clone)]
pub struct HdrBody {
    #[form(header_body)]
    pub hb: i32,
    pub a: String,
}
battery!(HdrBody, "HdrBody", "header_body", |p, out| { cart!(out; hb in p.i32s(), a in p.strings(); HdrBody { hb, a }); });

#[derive(Form, Debug, PartialEq, Clone)]
pub struct HdrBodySlots {
    #[form(header_body)]
    pub hb: i32,
    #[form(header)]
    pub h: String,
    pub a: i32,
}
battery!(HdrBodySlots, "HdrBodySlots", "header_body + header", |p, out| { cart!(out; hb in p.i32s(), h in p.strings(), a in p.i32s(); HdrBodySlots { hb, h, a }); });

#[derive(Form, Debug, PartialEq, Clone)]
pub struct HdrBody2Slots {
    #[form(header_body)]
    pub hb: String,
    #[form(header)]
    pub h1: i32,
    #[form(header)]
    pub h2: Option<i32>,
    pub a: bool,
}
battery!(HdrBody2Slots, "HdrBody2Slots", "header_body + 2 header slots (one optional)", |p, out| { cart!(out; hb in p.strings(), h1 in p.i32s(), h2 in p.opt_i32s(), a in p.bools(); HdrBody2Slots { hb, h1, h2, a }); });

#[derive(Form, Debug, PartialEq, Clone)]
pub struct HdrBodyAttr {
    #[form(header_body)]
    pub hb: i32,
    #[form(attr)]
    pub at: String,
    pub a: i32,
}
battery!(HdrBodyAttr, "HdrBodyAttr", "header_body + attr", |p, out| { cart!(out; hb in p.i32s(), at in p.strings(), a in p.i32s(); HdrBodyAttr { hb, at, a }); });

#[derive(Form, Debug, PartialEq, Clone)]
pub struct HdrVec {
    #[form(header_body)]
    pub v: Vec<i32>,
    pub x: i32,
}
battery!(HdrVec, "HdrVec", "header_body Vec", |p, out| { cart!(out; v in p.vec_i32s(), x in p.i32s(); HdrVec { v, x }); });

#[derive(Form, Debug, PartialEq, Clone)]
pub struct HdrRec {
    #[form(header_body)]
    pub r: Named,
    #[form(header)]
    pub t: Tup1,
    pub x: i32,
}
battery!(HdrRec, "HdrRec", "header_body / header holding records (nesting)", |p, out| { cart!(out; r in p.inner::<Named>(4, 30), t in p.inner::<Tup1>(2, 5), x in p.i32s(); HdrRec { r, t, x }); });

#[derive(Form, Debug, PartialEq, Clone)]
pub struct Attr1 {
    #[form(attr)]
    pub at: i32,
    pub a: String,
}
battery!(Attr1, "Attr1", "attr", |p, out| { cart!(out; at in p.i32s(), a in p.strings(); Attr1 { at, a }); });

#[derive(Form, Debug, PartialEq, Clone)]
pub struct Attr2 {
    #[form(attr)]
    pub at1: i32,
    #[form(attr)]
    pub at2: String,
    pub a: bool,
}
battery!(Attr2, "Attr2", "two attrs", |p, out| { cart!(out; at1 in p.i32s(), at2 in p.strings(), a in p.bools(); Attr2 { at1, at2, a }); });

#[derive(Form, Debug, PartialEq, Clone)]
pub struct Body1 {
    pub h: i32,
    #[form(body)]
    pub b: String,
}
battery!(Body1, "Body1", "body (primitive), slot promoted to header", |p, out| { cart!(out; h in p.i32s(), b in p.strings(); Body1 { h, b }); });

#[derive(Form, Debug, PartialEq, Clone)]
pub struct BodyRec {
    pub x: i32,
    #[form(body)]
    pub inner: Named,
}
battery!(BodyRec, "BodyRec", "body (record with its own tag), nesting", |p, out| { cart!(out; x in p.i32s(), inner in p.inner::<Named>(5, 100); BodyRec { x, inner }); });

#[derive(Form, Debug, PartialEq, Clone)]
pub struct BodyVec {
    #[form(attr)]
    pub at: i32,
    #[form(body)]
    pub items: Vec<i32>,
}
battery!(BodyVec, "BodyVec", "body Vec + attr", |p, out| { cart!(out; at in p.i32s(), items in p.vec_i32s(); BodyVec { at, items }); });

#[derive(Form, Debug, PartialEq, Clone)]
pub struct BodyMap {
    #[form(body)]
    pub m: HashMap<String, i32>,
    pub h: i32,
}
battery!(BodyMap, "BodyMap", "body HashMap", maps = [""], |p, out| { cart!(out; m in p.maps(), h in p.i32s(); BodyMap { m, h }); });

#[derive(Form, Debug, PartialEq, Clone)]
pub struct BodyOpt {
    pub h: i32,
    #[form(body)]
    pub b: Option<i32>,
}
battery!(BodyOpt, "BodyOpt", "body Option", |p, out| { cart!(out; h in p.i32s(), b in p.opt_i32s(); BodyOpt { h, b }); });

#[derive(Form, Debug, PartialEq, Clone)]
pub struct BodyBlob {
    #[form(body)]
    pub b: Vec<u8>,
}
battery!(BodyBlob, "BodyBlob", "body blob", |p, out| { cart!(out; b in p.blobs(); BodyBlob { b }); });

#[derive(Form, Debug, PartialEq, Clone)]
pub struct BodyBig {
    #[form(body)]
    pub b: BigInt,
}
battery!(BodyBig, "BodyBig", "body big integer", |p, out| { cart!(out; b in p.bigints(); BodyBig { b }); });

// ------------------------------------------------------------------ Option / collections / primitives

#[derive(Form, Debug, PartialEq, Clone)]
pub struct Opts {
    pub a: Option<i32>,
    pub b: Option<String>,
    pub c: i32,
}
battery!(Opts, "Opts", "Option slots", |p, out| { cart!(out; a in p.opt_i32s(), b in p.opt_strings(), c in p.i32s(); Opts { a, b, c }); });

#[derive(Form, Debug, PartialEq, Clone)]
pub struct OptHdr {
    #[form(header)]
    pub h: Option<i32>,
    #[form(attr)]
    pub at: Option<i32>,
    pub a: i32,
}
battery!(OptHdr, "OptHdr", "Option in header and attr", |p, out| { cart!(out; h in p.opt_i32s(), at in p.opt_i32s(), a in p.i32s(); OptHdr { h, at, a }); });

#[derive(Form, Debug, PartialEq, Clone)]
pub struct OptHdrBody {
    #[form(header_body)]
    pub hb: Option<i32>,
    #[form(header)]
    pub h: i32,
}
battery!(OptHdrBody, "OptHdrBody", "Option header_body", |p, out| { cart!(out; hb in p.opt_i32s(), h in p.i32s(); OptHdrBody { hb, h }); });

#[derive(Form, Debug, PartialEq, Clone)]
pub struct Colls {
    pub v: Vec<i32>,
    pub m: HashMap<String, i32>,
    pub o: Vec<Option<i32>>,
}
battery!(Colls, "Colls", "Vec, HashMap, Vec<Option>", maps = ["m:/"], |p, out| { cart!(out; v in p.vec_i32s(), m in p.maps(), o in p.vec_opt_i32s(); Colls { v, m, o }); });

#[derive(Form, Debug, PartialEq, Clone)]
pub struct AttrColls {
    #[form(attr)]
    pub v: Vec<i32>,
    #[form(attr)]
    pub m: HashMap<String, i32>,
    pub x: i32,
}
battery!(AttrColls, "AttrColls", "Vec / HashMap as attr", maps = ["@m/"], |p, out| { cart!(out; v in p.vec_i32s(), m in p.maps(), x in p.i32s(); AttrColls { v, m, x }); });

#[derive(Form, Debug, PartialEq, Clone)]
pub struct IntMap {
    pub m: HashMap<i32, String>,
    #[form(header)]
    pub hm: HashMap<String, i32>,
}
battery!(IntMap, "IntMap", "HashMap with int keys; HashMap in header slot", maps = ["m:/", "@IntMap/hm:/"], |p, out| { cart!(out; m in p.int_maps(), hm in p.maps(); IntMap { m, hm }); });

#[derive(Form, Debug, PartialEq, Clone)]
pub struct Prims {
    pub f: f64,
    pub u: u64,
    pub l: i64,
    pub w: u32,
    pub t: bool,
}
battery!(Prims, "Prims", "numeric primitives", |p, out| { cart!(out; f in p.f64s(), u in p.u64s(), l in p.i64s(), w in p.u32s(), t in p.bools(); Prims { f, u, l, w, t }); });

#[derive(Form, Debug, PartialEq, Clone)]
pub struct Bigs {
    pub b: Vec<u8>,
    pub big: BigInt,
    #[form(attr)]
    pub bu: BigUint,
}
battery!(Bigs, "Bigs", "blob, BigInt, BigUint", |p, out| { cart!(out; b in p.blobs(), big in p.bigints(), bu in p.biguints(); Bigs { b, big, bu }); });

// ------------------------------------------------------------------ generics / nesting

#[derive(Form, Debug, PartialEq, Clone)]
pub struct Gen<T> {
    #[form(header)]
    pub h: i32,
    pub a: T,
}
battery!(Gen<i32>, "Gen<i32>", "generic at primitive", |p, out| { cart!(out; h in p.i32s(), a in p.i32s(); Gen { h, a }); });
battery!(Gen<Named>, "Gen<Named>", "generic at record (nesting)", |p, out| { cart!(out; h in p.i32s(), a in p.inner::<Named>(5, 100); Gen { h, a }); });
battery!(Gen<Vec<String>>, "Gen<Vec<String>>", "generic at Vec", |p, out| { cart!(out; h in p.i32s(), a in p.vec_strings(); Gen { h, a }); });

#[derive(Form, Debug, PartialEq, Clone)]
pub struct GenBody<T> {
    pub h: bool,
    #[form(body)]
    pub b: T,
}
battery!(GenBody<E1>, "GenBody<E1>", "generic body at enum", |p, out| { cart!(out; h in p.bools(), b in p.inner::<E1>(8, 100); GenBody { h, b }); });

#[derive(Form, Debug, PartialEq, Clone)]
pub struct Nest1 {
    pub inner: Named,
    #[form(attr)]
    pub o: Option<i32>,
}
battery!(Nest1, "Nest1", "nesting 1, Option attr", |p, out| { cart!(out; inner in p.inner::<Named>(5, 100), o in p.opt_i32s(); Nest1 { inner, o }); });

#[derive(Form, Debug, PartialEq, Clone)]
pub struct Nest2 {
    #[form(header)]
    pub hdr: Named,
    pub mid: Nest1,
}
battery!(Nest2, "Nest2", "nesting 2, record in header slot", |p, out| { cart!(out; hdr in p.inner::<Named>(3, 12), mid in p.inner::<Nest1>(8, 200); Nest2 { hdr, mid }); });

#[derive(Form, Debug, PartialEq, Clone)]
pub struct VecStruct {
    pub items: Vec<Named>,
    pub o: Option<Named>,
    #[form(attr)]
    pub t: Tup2,
}
impl Battery for VecStruct {
    const NAME: &'static str = "VecStruct";
    const COVERS: &'static str = "Vec / Option of records, record as attr";
    fn instances(p: &Pools) -> Vec<Self> {
        let named = p.inner::<Named>(2, 5);
        let mut vecs: Vec<Vec<Named>> = vec![vec![]];
        for n in &named {
            vecs.push(vec![n.clone()]);
        }
        vecs.push(vec![named[0].clone(), named[named.len() - 1].clone()]);
        let mut opts: Vec<Option<Named>> = vec![None];
        for n in &named {
            opts.push(Some(n.clone()));
        }
        let mut out = vec![];
        cart!(out; items in vecs, o in opts, t in p.inner::<Tup2>(2, 5); VecStruct { items, o, t });
        out
    }
}

// ------------------------------------------------------------------ enums / tag field

#[derive(Form, Debug, PartialEq, Clone)]
pub enum E1 {
    A,
    B { x: i32 },
    C(i32, String),
}
battery!(E1, "E1", "enum: unit, named, tuple variants", |p, out| {
    out.push(E1::A);
    cart!(out; x in p.i32s(); E1::B { x });
    cart!(out; a in p.i32s(), b in p.strings(); E1::C(a, b));
});

#[derive(Form, Debug, PartialEq, Clone)]
pub enum E2 {
    #[form(tag = "first")]
    First {
        #[form(header)]
        h: i32,
        v: String,
    },
    Second(#[form(header_body)] i32, bool),
    Third {
        #[form(attr)]
        at: i32,
        #[form(body)]
        b: Vec<i32>,
    },
    #[form(tag = "unit")]
    U,
    Fourth {
        #[form(name = "renamed")]
        a: Option<i32>,
        #[form(skip)]
        s: i32,
    },
}
impl Battery for E2 {
    const NAME: &'static str = "E2";
    const COVERS: &'static str = "enum variants with tag, header, header_body, attr, body, rename, skip";
    fn instances(p: &Pools) -> Vec<Self> {
        let mut out = vec![E2::U];
        cart!(out; h in p.i32s(), v in p.strings(); E2::First { h, v });
        cart!(out; a in p.i32s(), b in p.bools(); E2::Second(a, b));
        cart!(out; at in p.i32s(), b in p.vec_i32s(); E2::Third { at, b });
        cart!(out; a in p.opt_i32s(), s in [0, 5]; E2::Fourth { a, s });
        out
    }
    fn normal(&self) -> Self {
        match self {
            E2::Fourth { a, .. } => E2::Fourth { a: *a, s: 0 },
            ow => ow.clone(),
        }
    }
}

/// Variants that delegate their body to a field which brings attributes of its own (a record with
/// a tag, another enum): whoever writes such a value has to announce the attributes of every level.
#[derive(Form, Debug, PartialEq, Clone)]
pub enum E3 {
    Wrap {
        #[form(attr)]
        at: i32,
        #[form(body)]
        inner: Named,
    },
    Deep {
        #[form(body)]
        e: E1,
    },
    Plain(i32),
}
battery!(E3, "E3", "enum variants whose body is a record with its own tag / another enum", |p, out| {
    cart!(out; at in p.i32s(), inner in p.inner::<Named>(5, 100); E3::Wrap { at, inner });
    cart!(out; e in p.inner::<E1>(8, 100); E3::Deep { e });
    cart!(out; a in p.i32s(); E3::Plain(a));
});

#[derive(Tag, Debug, PartialEq, Eq, Clone, Copy)]
pub enum Level {
    Trace,
    #[form(tag = "error")]
    Error,
}

#[derive(Form, Debug, PartialEq, Clone)]
pub struct Tagged {
    #[form(tag)]
    pub lvl: Level,
    #[form(header)]
    pub h: i32,
    pub msg: String,
}
battery!(Tagged, "Tagged", "tag taken from a field", |p, out| { cart!(out; lvl in [Level::Trace, Level::Error], h in p.i32s(), msg in p.strings(); Tagged { lvl, h, msg }); });

#[derive(Form, Debug, PartialEq, Clone)]
pub struct TaggedHb {
    #[form(tag)]
    pub lvl: Level,
    #[form(header_body)]
    pub hb: i32,
    #[form(header)]
    pub h: String,
    pub msg: i32,
}
battery!(TaggedHb, "TaggedHb", "tag taken from a field + header_body + header slot", |p, out| { cart!(out; lvl in [Level::Trace, Level::Error], hb in p.i32s(), h in p.strings(), msg in p.i32s(); TaggedHb { lvl, hb, h, msg }); });

#[derive(Form, Debug, PartialEq, Clone)]
pub struct EnumHolder {
    pub e: E1,
    #[form(attr)]
    pub e2: E1,
    #[form(header_body)]
    pub u: Unit0,
}
battery!(EnumHolder, "EnumHolder", "enum as slot and attr, unit struct as header_body (nesting)", |p, out| { cart!(out; e in p.inner::<E1>(8, 100), e2 in p.inner::<E1>(8, 100); EnumHolder { e, e2, u: Unit0 }); });

// ------------------------------------------------------------------ generic model (`Value`) fields

fn atoms_small() -> Vec<Value> {
    vec![Value::Extant, Value::Int32Value(1), Value::text("a"), Value::BooleanValue(true)]
}

/// Model values used as field values of type `Value`.
pub fn field_values() -> Vec<Value> {
    let mut v = atoms_small();
    v.push(Value::Record(vec![], vec![]));
    v.push(Value::Record(vec![], vec![Item::ValueItem(Value::Int32Value(1))]));
    v.push(Value::Record(vec![], vec![Item::ValueItem(Value::Int32Value(1)), Item::ValueItem(Value::text("b"))]));
    v.push(Value::Record(vec![], vec![Item::Slot(Value::text("k"), Value::Int32Value(1))]));
    v.push(Value::Record(vec![], vec![Item::Slot(Value::text("k"), Value::Int32Value(1)), Item::ValueItem(Value::Int32Value(2))]));
    v.push(Value::Record(vec![Attr::of("t")], vec![]));
    v.push(Value::Record(vec![Attr::of(("t", Value::Int32Value(1)))], vec![Item::Slot(Value::text("k"), Value::Int32Value(1))]));
    v.push(Value::Record(vec![Attr::of("t"), Attr::of("u")], vec![Item::ValueItem(Value::Int32Value(1))]));
    v
}

/// What a `Value` used as the *body* of a record reads back as: in Recon a record body `{}` is
/// no body, and a body consisting of one value item is that item (`@a {7}` is `@a 7`), so these
/// cannot be told apart once they are the body of an attributed record.
pub fn body_normal(v: &Value) -> Value {
    match v {
        Value::Record(attrs, items) if attrs.is_empty() && items.is_empty() => Value::Extant,
        Value::Record(attrs, items) if attrs.is_empty() && items.len() == 1 => match &items[0] {
            Item::ValueItem(x) => x.clone(),
            _ => v.clone(),
        },
        ow => ow.clone(),
    }
}

#[derive(Form, Debug, PartialEq, Clone)]
pub struct ValSlot {
    pub v: Value,
    pub x: i32,
}
battery!(ValSlot, "ValSlot", "Value as slot", |p, out| { cart!(out; v in field_values(), x in [0, 1]; ValSlot { v, x }); });

#[derive(Form, Debug, PartialEq, Clone)]
pub struct ValBody {
    pub h: i32,
    #[form(body)]
    pub b: Value,
}
impl Battery for ValBody {
    const NAME: &'static str = "ValBody";
    const COVERS: &'static str = "Value as body";
    const VALUE_BODY: bool = true;
    fn instances(_p: &Pools) -> Vec<Self> {
        let mut out = vec![];
        cart!(out; h in [0, 1], b in field_values(); ValBody { h, b });
        out
    }
    fn normal(&self) -> Self {
        ValBody { h: self.h, b: body_normal(&self.b) }
    }
}

#[derive(Form, Debug, PartialEq, Clone)]
pub struct ValAttr {
    #[form(attr)]
    pub a: Value,
    pub x: i32,
}
battery!(ValAttr, "ValAttr", "Value as attr", |p, out| { cart!(out; a in field_values(), x in [0, 1]; ValAttr { a, x }); });

#[derive(Form, Debug, PartialEq, Clone)]
pub struct ValHdrBody {
    #[form(header_body)]
    pub hb: Value,
    pub x: i32,
}
battery!(ValHdrBody, "ValHdrBody", "Value as header_body", |p, out| { cart!(out; hb in field_values(), x in [0, 1]; ValHdrBody { hb, x }); });

#[derive(Form, Debug, PartialEq, Clone)]
pub struct ValHdr {
    #[form(header_body)]
    pub hb: i32,
    #[form(header)]
    pub h: Value,
    pub x: i32,
}
battery!(ValHdr, "ValHdr", "Value as header slot after a header_body", |p, out| { cart!(out; hb in [0, 1], h in field_values(), x in [0, 1]; ValHdr { hb, h, x }); });

#[derive(Form, Debug, PartialEq, Clone)]
pub enum ValEnum {
    #[form(tag = "event")]
    Event {
        #[form(header)]
        node: String,
        #[form(body)]
        body: Value,
    },
    #[form(tag = "command")]
    Command(#[form(header_body)] Value, #[form(body)] Option<Value>),
}
impl Battery for ValEnum {
    const NAME: &'static str = "ValEnum";
    const COVERS: &'static str = "envelope-like enum: header + Value body, header_body Value + Option<Value> body";
    const VALUE_BODY: bool = true;
    fn instances(_p: &Pools) -> Vec<Self> {
        let mut out = vec![];
        cart!(out; node in ["".to_string(), "/n".to_string()], body in field_values(); ValEnum::Event { node, body });
        let mut opts: Vec<Option<Value>> = vec![None];
        // Some(Extant) is left out: as a body it is indistinguishable from None by construction
        opts.extend(atoms_small().into_iter().filter(|v| *v != Value::Extant).map(Some));
        opts.push(Some(Value::Record(vec![], vec![])));
        opts.push(Some(Value::Record(vec![Attr::of("t")], vec![Item::Slot(Value::text("k"), Value::Int32Value(1))])));
        cart!(out; hb in atoms_small(), b in opts; ValEnum::Command(hb, b));
        out
    }
    fn normal(&self) -> Self {
        match self {
            ValEnum::Event { node, body } => ValEnum::Event { node: node.clone(), body: body_normal(body) },
            // an empty body is no body
            ValEnum::Command(hb, Some(b)) if *b == Value::Record(vec![], vec![]) => ValEnum::Command(hb.clone(), None),
            ow => ow.clone(),
        }
    }
}

// ------------------------------------------------------------------ built-in Form implementations

pub fn durations() -> Vec<Duration> {
    vec![Duration::new(0, 0), Duration::new(1, 0), Duration::new(1, 500_000_000), Duration::new(u64::MAX, 999_999_999)]
}

pub fn timestamps() -> Vec<Timestamp> {
    [(0i64, 0u32), (1, 0), (1, 500_000_000), (-1, 0), (-2, 250_000_000), (1_600_000_000, 123_456_000)]
        .iter()
        .map(|(s, n)| Timestamp::from(Utc.timestamp_opt(*s, *n).unwrap()))
        .collect()
}

pub fn retries() -> Vec<RetryStrategy> {
    let nz = |n: usize| NonZeroUsize::new(n).unwrap();
    vec![
        RetryStrategy::none(),
        RetryStrategy::default_immediate(),
        RetryStrategy::immediate(nz(1)),
        RetryStrategy::immediate(nz(7)),
        RetryStrategy::default_interval(),
        RetryStrategy::interval(Duration::new(0, 0), Quantity::Finite(nz(1))),
        RetryStrategy::interval(Duration::new(1, 500_000_000), Quantity::Infinite),
        RetryStrategy::default_exponential(),
        RetryStrategy::exponential(Duration::new(1, 0), Quantity::Finite(Duration::new(2, 1))),
        RetryStrategy::exponential(Duration::new(0, 0), Quantity::Infinite),
    ]
}

#[derive(Form, Debug, PartialEq, Clone)]
pub struct Builtins {
    pub d: Duration,
    pub t: (i32, String),
    pub a: Arc<Named>,
    pub u: usize,
    pub n: NonZeroUsize,
    pub txt: Text,
    pub bl: Blob,
    pub unit: (),
}
battery!(Builtins, "Builtins", "Duration, tuple, Arc, usize, NonZeroUsize, Text, Blob, ()", maps = [], opaque = ["d:/"], |p, out| {
    cart!(out; d in durations(), t in [(0, "".to_string()), (-2, "b c".to_string())], a in p.inner::<Named>(2, 2), u in [0usize, usize::MAX],
        n in [NonZeroUsize::new(1).unwrap(), NonZeroUsize::new(usize::MAX).unwrap()], txt in [Text::new(""), Text::new("a b")], bl in [Blob::from_vec(vec![]), Blob::from_vec(vec![0, 255])];
        Builtins { d, t, a: Arc::new(a), u, n, txt, bl, unit: () });
});

#[derive(Form, Debug, PartialEq, Clone)]
pub struct BuiltinPlaces {
    #[form(header_body)]
    pub d: Duration,
    #[form(attr)]
    pub t: (i32, String),
    #[form(header)]
    pub r: RetryStrategy,
    pub ts: Timestamp,
}
battery!(BuiltinPlaces, "BuiltinPlaces", "Duration header_body, tuple attr, RetryStrategy header, Timestamp slot (whole seconds)", maps = [], opaque = ["@BuiltinPlaces/item[0]/", "@BuiltinPlaces/r:/", "ts:/"], |p, out| {
    cart!(out; d in durations(), t in [(0, "".to_string()), (-2, "b c".to_string())], r in retries(), ts in timestamps()[..2]; BuiltinPlaces { d, t, r, ts });
});

#[derive(Form, Debug, PartialEq, Clone)]
pub struct UnitAttr {
    #[form(attr)]
    pub unit: (),
    pub x: i32,
}
battery!(UnitAttr, "UnitAttr", "() as attr", |p, out| { cart!(out; x in p.i32s(); UnitAttr { unit: (), x }); });

#[derive(Form, Debug, PartialEq, Clone)]
pub struct NestedColls {
    pub vv: Vec<Vec<i32>>,
    pub ov: Option<Vec<i32>>,
    pub mv: HashMap<String, Vec<i32>>,
    #[form(attr)]
    pub ou: Option<Unit0>,
    pub os: Option<Unit0>,
}
battery!(NestedColls, "NestedColls", "Vec<Vec>, Option<Vec>, HashMap<_, Vec>, Option<unit struct>", maps = ["mv:/"], |p, out| {
    let m = |kv: &[(&str, Vec<i32>)]| kv.iter().map(|(k, v)| (k.to_string(), v.clone())).collect::<HashMap<_, _>>();
    cart!(out; vv in [vec![], vec![vec![]], vec![vec![1], vec![]], vec![vec![1, 2], vec![3]]], ov in [None, Some(vec![]), Some(vec![1])],
        mv in [m(&[]), m(&[("a", vec![])]), m(&[("a", vec![1]), ("b", vec![])])], ou in [None, Some(Unit0)], os in [None, Some(Unit0)];
        NestedColls { vv, ov, mv, ou, os });
});

macro_rules! builtin_battery {
    ($ty:ty, $name:expr, maps = [$($m:expr),*], $pool:expr) => {
        builtin_battery!($ty, $name, maps = [$($m),*], opaque = [], $pool);
    };
    ($ty:ty, $name:expr, maps = [$($m:expr),*], opaque = [$($o:expr),*], $pool:expr) => {
        impl Battery for $ty {
            const NAME: &'static str = $name;
            const COVERS: &'static str = "built-in Form implementation, top level";
            const MAP_PATHS: &'static [&'static str] = &[$($m),*];
            const OPAQUE_PATHS: &'static [&'static str] = &[$($o),*];
            fn instances(p: &Pools) -> Vec<Self> {
                let _ = p;
                $pool(p)
            }
        }
    };
}

builtin_battery!(i32, "i32", maps = [], |p: &Pools| p.i32s());
builtin_battery!(u64, "u64", maps = [], |p: &Pools| p.u64s());
builtin_battery!(f64, "f64", maps = [], |p: &Pools| p.f64s());
builtin_battery!(String, "String", maps = [], |p: &Pools| p.strings());
builtin_battery!(BigInt, "BigInt", maps = [], |p: &Pools| p.bigints());
builtin_battery!(BigUint, "BigUint", maps = [], |p: &Pools| p.biguints());
builtin_battery!(Vec<u8>, "Vec<u8>", maps = [], |p: &Pools| p.blobs());
builtin_battery!(Vec<i32>, "Vec<i32>", maps = [], |p: &Pools| p.vec_i32s());
builtin_battery!(Option<i32>, "Option<i32>", maps = [], |p: &Pools| p.opt_i32s());
builtin_battery!(Option<Named>, "Option<Named>", maps = [], |p: &Pools| { let mut v = vec![None]; v.extend(p.inner::<Named>(3, 3).into_iter().map(Some)); v });
builtin_battery!(HashMap<String, i32>, "HashMap<String,i32>", maps = [""], |p: &Pools| p.maps());
builtin_battery!((i32, String), "(i32,String)", maps = [], |p: &Pools| { let mut v = vec![]; for a in p.i32s() { for b in p.strings() { v.push((a, b.clone())); } } v });
builtin_battery!(Duration, "Duration", maps = [], opaque = [""], |_p: &Pools| durations());
builtin_battery!(Timestamp, "Timestamp", maps = [], |_p: &Pools| timestamps());
builtin_battery!(RetryStrategy, "RetryStrategy", maps = [], opaque = [""], |_p: &Pools| retries());
builtin_battery!(Vec<Named>, "Vec<Named>", maps = [], |p: &Pools| { let n = p.inner::<Named>(3, 3); vec![vec![], vec![n[0].clone()], vec![n[1].clone(), n[2].clone()]] });

/// The generic model itself (its Recon text fidelity is C09's subject; here: MessagePack and the
/// reading paths).
impl Battery for Value {
    const NAME: &'static str = "Value";
    const COVERS: &'static str = "the generic model type";
    const SKIP_RECON_ROUNDTRIP: bool = true;
    fn instances(p: &Pools) -> Vec<Self> {
        let mut v = field_values();
        v.push(Value::Int64Value(i64::MAX));
        v.push(Value::UInt64Value(u64::MAX));
        v.push(Value::Float64Value(1.5));
        v.push(Value::Data(Blob::from_vec(vec![0, 255])));
        v.push(Value::BigInt(BigInt::from(-2).pow(71)));
        v.push(Value::BigUint(BigUint::from(2u32).pow(70)));
        // one level of nesting: every field value as an attribute body, a slot value and a slot key
        for f in field_values() {
            v.push(Value::Record(vec![Attr::of(("t", f.clone()))], vec![]));
            v.push(Value::Record(vec![], vec![Item::Slot(Value::text("k"), f.clone())]));
            v.push(Value::Record(vec![], vec![Item::Slot(f.clone(), Value::Int32Value(1))]));
            v.push(Value::Record(vec![Attr::of("t")], vec![Item::ValueItem(f.clone()), Item::ValueItem(f)]));
        }
        let _ = p;
        v
    }
}

// ------------------------------------------------------------------ collection / placement wrappers
//
// Every derived battery type T is additionally exercised as an *element*: recognizers of element
// types are re-used (after `reset`) for the 2nd and later element of a Vec / value of a HashMap,
// and one recognizer type is instantiated several times within one record.

/// Element pool of a wrapper: the first three instances of T plus the last one.
pub fn elems<T: Battery>(p: &Pools) -> Vec<T> {
    p.inner::<T>(0, 3)
}

fn at<T: Clone>(e: &[T], i: usize) -> T {
    e[i % e.len()].clone()
}

fn vec_pool<T: Clone>(e: &[T]) -> Vec<Vec<T>> {
    vec![vec![], vec![at(e, 0)], vec![at(e, 0), at(e, 1)], vec![at(e, 1), at(e, 0), at(e, 2)], vec![at(e, 3), at(e, 3)]]
}

fn map_pool<T: Clone>(e: &[T]) -> Vec<HashMap<i32, T>> {
    vec![
        HashMap::new(),
        [(1, at(e, 0)), (2, at(e, 1))].into_iter().collect(),
        [(2, at(e, 0)), (1, at(e, 1)), (-3, at(e, 3))].into_iter().collect(),
    ]
}

fn opt_pool<T: Clone>(e: &[T]) -> Vec<Option<T>> {
    vec![None, Some(at(e, 0)), Some(at(e, 1))]
}

/// Matches `path` against a template holding at most one `*` (one path component); returns the
/// remainder of the path after the template.
fn match_prefix<'a>(path: &'a str, tmpl: &str) -> Option<&'a str> {
    match tmpl.split_once('*') {
        None => path.strip_prefix(tmpl),
        Some((pre, post)) => {
            let rest = path.strip_prefix(pre)?;
            let idx = rest.find(post)?;
            if rest[..idx].contains('/') {
                None
            } else {
                Some(&rest[idx + post.len()..])
            }
        }
    }
}

fn elem_map_path<T: Battery>(path: &str, own: &[&str], elem_at: &[&str]) -> bool {
    own.contains(&path) || elem_at.iter().any(|t| match_prefix(path, t).map_or(false, T::is_map_path))
}

fn elem_opaque_path<T: Battery>(path: &str, elem_at: &[&str]) -> bool {
    elem_at.iter().any(|t| match_prefix(path, t).map_or(false, |r| (T::VALUE_BODY && r.is_empty()) || T::is_opaque_path(r)))
}

/// Collections of T in every legal placement.
#[derive(Form, Debug, PartialEq, Clone)]
pub struct Multi<T> {
    #[form(header_body)]
    pub hb: Vec<T>,
    #[form(header)]
    pub hm: HashMap<i32, T>,
    #[form(header)]
    pub ho: Option<T>,
    #[form(attr)]
    pub av: Vec<T>,
    #[form(attr)]
    pub ao: Option<T>,
    pub sv: Vec<T>,
    pub sm: HashMap<i32, T>,
    pub so: Option<T>,
}

// (a one-element Vec in attribute position may be flattened: the attribute body is the element)
const MULTI_ELEMS: [&str; 10] =
    ["@Multi/item[0]/item[*]/", "@Multi/item[0]/", "@Multi/hm:/*:/", "@Multi/ho:/", "@av/item[*]/", "@av/", "@ao/", "sv:/item[*]/", "sm:/*:/", "so:/"];

impl<T: Battery> Multi<T> {
    fn empty() -> Self {
        Multi { hb: vec![], hm: HashMap::new(), ho: None, av: vec![], ao: None, sv: vec![], sm: HashMap::new(), so: None }
    }
}

impl<T: Battery> Battery for Multi<T> {
    const NAME: &'static str = "Multi";
    const COVERS: &'static str = "";
    const WRAPPER: bool = true;
    fn name() -> String {
        format!("Multi<{}>", T::name())
    }
    fn covers() -> String {
        format!("Vec (0-3 elements) / HashMap<i32,_> (2-3 entries) / Option of {} as header_body, header slot, attr and slot", T::name())
    }
    fn is_map_path(path: &str) -> bool {
        elem_map_path::<T>(path, &["@Multi/hm:/", "sm:/"], &MULTI_ELEMS)
    }
    fn is_opaque_path(path: &str) -> bool {
        elem_opaque_path::<T>(path, &MULTI_ELEMS)
    }
    /// The empty wrapper, every single field set to each non-empty pool value, and everything set.
    fn instances(p: &Pools) -> Vec<Self> {
        let e = elems::<T>(p);
        let (vs, ms, os) = (vec_pool(&e), map_pool(&e), opt_pool(&e));
        let mut out = vec![Self::empty()];
        for v in &vs[1..] {
            out.push(Multi { hb: v.clone(), ..Self::empty() });
            out.push(Multi { av: v.clone(), ..Self::empty() });
            out.push(Multi { sv: v.clone(), ..Self::empty() });
        }
        for m in &ms[1..] {
            out.push(Multi { hm: m.clone(), ..Self::empty() });
            out.push(Multi { sm: m.clone(), ..Self::empty() });
        }
        for o in &os[1..] {
            out.push(Multi { ho: o.clone(), ..Self::empty() });
            out.push(Multi { ao: o.clone(), ..Self::empty() });
            out.push(Multi { so: o.clone(), ..Self::empty() });
        }
        out.push(Multi { hb: vs[2].clone(), hm: ms[1].clone(), ho: os[1].clone(), av: vs[2].clone(), ao: os[2].clone(), sv: vs[3].clone(), sm: ms[2].clone(), so: os[1].clone() });
        out
    }
    fn normal(&self) -> Self {
        let nv = |v: &Vec<T>| v.iter().map(|x| x.normal()).collect::<Vec<T>>();
        let nm = |m: &HashMap<i32, T>| m.iter().map(|(k, x)| (*k, x.normal())).collect::<HashMap<i32, T>>();
        let no = |o: &Option<T>| o.as_ref().map(|x| x.normal());
        Multi { hb: nv(&self.hb), hm: nm(&self.hm), ho: no(&self.ho), av: nv(&self.av), ao: no(&self.ao), sv: nv(&self.sv), sm: nm(&self.sm), so: no(&self.so) }
    }
}

/// T itself in every placement, twice as a slot (one recognizer type used several times).
#[derive(Form, Debug, PartialEq, Clone)]
pub struct Places<T> {
    #[form(header_body)]
    pub e: T,
    #[form(header)]
    pub d: T,
    #[form(attr)]
    pub c: T,
    pub a: T,
    pub b: T,
}

const PLACES_ELEMS: [&str; 5] = ["@Places/item[0]/", "@Places/d:/", "@c/", "a:/", "b:/"];

impl<T: Battery> Battery for Places<T> {
    const NAME: &'static str = "Places";
    const COVERS: &'static str = "";
    const WRAPPER: bool = true;
    fn name() -> String {
        format!("Places<{}>", T::name())
    }
    fn covers() -> String {
        format!("{} as header_body, header slot, attr and two slots of one record", T::name())
    }
    fn is_map_path(path: &str) -> bool {
        elem_map_path::<T>(path, &[], &PLACES_ELEMS)
    }
    fn is_opaque_path(path: &str) -> bool {
        elem_opaque_path::<T>(path, &PLACES_ELEMS)
    }
    fn instances(p: &Pools) -> Vec<Self> {
        let x = elems::<T>(p);
        let all = |i: usize| Places { e: at(&x, i), d: at(&x, i), c: at(&x, i), a: at(&x, i), b: at(&x, i) };
        let mut out = vec![all(0)];
        for i in 1..x.len().min(3) {
            out.push(Places { e: at(&x, i), ..all(0) });
            out.push(Places { d: at(&x, i), ..all(0) });
            out.push(Places { c: at(&x, i), ..all(0) });
            out.push(Places { a: at(&x, i), ..all(0) });
            out.push(Places { b: at(&x, i), ..all(0) });
        }
        if x.len() > 1 {
            out.push(all(1));
            out.push(Places { e: at(&x, 3), d: at(&x, 2), c: at(&x, 1), a: at(&x, 0), b: at(&x, 3) });
        }
        out
    }
    fn normal(&self) -> Self {
        Places { e: self.e.normal(), d: self.d.normal(), c: self.c.normal(), a: self.a.normal(), b: self.b.normal() }
    }
}

/// T and collections of T as the body of a record (enum variants: their recognizers are created
/// per read, the element recognizers inside are still re-used).
#[derive(Form, Debug, PartialEq, Clone)]
pub enum Bodies<T> {
    V {
        #[form(header)]
        n: i32,
        #[form(body)]
        v: Vec<T>,
    },
    M {
        #[form(body)]
        m: HashMap<i32, T>,
    },
    O {
        #[form(body)]
        o: Option<T>,
    },
    P(#[form(header_body)] T, #[form(body)] T),
}

const BODIES_ELEMS: [&str; 4] = ["item[*]/", "*:/", "", "@P/"];

impl<T: Battery> Battery for Bodies<T> {
    const NAME: &'static str = "Bodies";
    const COVERS: &'static str = "";
    const WRAPPER: bool = true;
    fn name() -> String {
        format!("Bodies<{}>", T::name())
    }
    fn covers() -> String {
        format!("Vec / HashMap<i32,_> / Some / {} itself as the body of an enum variant, {} as header_body", T::name(), T::name())
    }
    fn is_map_path(path: &str) -> bool {
        elem_map_path::<T>(path, &[""], &BODIES_ELEMS)
    }
    fn is_opaque_path(path: &str) -> bool {
        elem_opaque_path::<T>(path, &BODIES_ELEMS)
    }
    fn instances(p: &Pools) -> Vec<Self> {
        let x = elems::<T>(p);
        let mut out = vec![];
        for (i, v) in vec_pool(&x).into_iter().enumerate() {
            out.push(Bodies::V { n: i as i32, v });
        }
        for m in map_pool(&x) {
            out.push(Bodies::M { m });
        }
        // `None` as a body is the known defect D2 (see BodyOpt); only `Some` here
        for o in opt_pool(&x).into_iter().skip(1) {
            out.push(Bodies::O { o });
        }
        out.push(Bodies::P(at(&x, 0), at(&x, 0)));
        out.push(Bodies::P(at(&x, 1), at(&x, 2)));
        out
    }
    fn normal(&self) -> Self {
        match self {
            Bodies::V { n, v } => Bodies::V { n: *n, v: v.iter().map(|x| x.normal()).collect() },
            Bodies::M { m } => Bodies::M { m: m.iter().map(|(k, x)| (*k, x.normal())).collect() },
            Bodies::O { o } => Bodies::O { o: o.as_ref().map(|x| x.normal()) },
            Bodies::P(a, b) => Bodies::P(a.normal(), b.normal()),
        }
    }
}

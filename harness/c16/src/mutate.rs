//! Single-edit mutation enumerators: on the `Value` level (schema violations that are still
//! well-formed Recon) and on the raw token level (mostly ill-formed Recon).

use std::collections::BTreeSet;
use swimos_model::{Attr, Item, Text, Value};

fn collect_names(v: &Value, out: &mut BTreeSet<String>) {
    if let Value::Record(attrs, items) = v {
        for a in attrs {
            out.insert(a.name.to_string());
            collect_names(&a.value, out);
        }
        for it in items {
            match it {
                Item::ValueItem(v) => collect_names(v, out),
                Item::Slot(k, v) => {
                    if let Value::Text(t) = k {
                        out.insert(t.to_string());
                    }
                    collect_names(k, out);
                    collect_names(v, out);
                }
            }
        }
    }
}

fn alternatives(v: &Value) -> Vec<Value> {
    let alts = vec![
        Value::Extant,
        Value::Int32Value(7),
        Value::text("q"),
        Value::BooleanValue(true),
        Value::Record(vec![], vec![]),
        Value::Record(vec![], vec![Item::ValueItem(Value::Int32Value(7))]),
    ];
    alts.into_iter().filter(|a| a != v).collect()
}

/// Every single-edit mutation of `v`; edits inside attribute values / item values are applied
/// recursively down to `depth` levels.
pub fn value_mutations(v: &Value, depth: usize) -> Vec<(String, Value)> {
    let mut names = BTreeSet::new();
    collect_names(v, &mut names);
    names.insert("zz".to_string());
    let names: Vec<String> = names.into_iter().collect();
    let mut out = vec![];
    mutate(v, &names, depth, &mut out);
    out
}

fn mutate(v: &Value, names: &[String], depth: usize, out: &mut Vec<(String, Value)>) {
    match v {
        Value::Record(attrs, items) => {
            let with_attrs = |a: Vec<Attr>| Value::Record(a, items.clone());
            let with_items = |i: Vec<Item>| Value::Record(attrs.clone(), i);
            for i in 0..attrs.len() {
                let mut a = attrs.clone();
                a.remove(i);
                out.push((format!("attr_delete[{}]", i), with_attrs(a)));
                let mut a = attrs.clone();
                a.insert(i, attrs[i].clone());
                out.push((format!("attr_duplicate[{}]", i), with_attrs(a)));
                for j in (i + 1)..attrs.len() {
                    let mut a = attrs.clone();
                    a.swap(i, j);
                    out.push((format!("attr_transpose[{},{}]", i, j), with_attrs(a)));
                }
                for n in names {
                    if attrs[i].name.as_str() != n.as_str() {
                        let mut a = attrs.clone();
                        a[i] = Attr::of((n.as_str(), attrs[i].value.clone()));
                        out.push((format!("attr_retag[{}->{}]", i, n), with_attrs(a)));
                    }
                }
                for alt in alternatives(&attrs[i].value) {
                    let mut a = attrs.clone();
                    a[i] = Attr::of((attrs[i].name.as_str(), alt));
                    out.push((format!("attr_value_replace[{}]", i), with_attrs(a)));
                }
                if depth > 0 {
                    let mut sub = vec![];
                    mutate(&attrs[i].value, names, depth - 1, &mut sub);
                    for (op, nv) in sub {
                        let mut a = attrs.clone();
                        a[i] = Attr::of((attrs[i].name.as_str(), nv));
                        out.push((format!("attr[{}]/{}", i, op), with_attrs(a)));
                    }
                }
            }
            for pos in 0..=attrs.len() {
                let mut a = attrs.clone();
                a.insert(pos, Attr::of("zz"));
                out.push((format!("attr_insert[{}]", pos), with_attrs(a)));
            }
            for i in 0..items.len() {
                let mut it = items.clone();
                it.remove(i);
                out.push((format!("item_delete[{}]", i), with_items(it)));
                let mut it = items.clone();
                it.insert(i, items[i].clone());
                out.push((format!("item_duplicate[{}]", i), with_items(it)));
                for j in (i + 1)..items.len() {
                    let mut it = items.clone();
                    it.swap(i, j);
                    out.push((format!("item_transpose[{},{}]", i, j), with_items(it)));
                }
                match &items[i] {
                    Item::Slot(k, val) => {
                        for n in names {
                            if !matches!(k, Value::Text(t) if t.as_str() == n.as_str()) {
                                let mut it = items.clone();
                                it[i] = Item::Slot(Value::Text(Text::new(n)), val.clone());
                                out.push((format!("slot_rekey[{}->{}]", i, n), with_items(it)));
                            }
                        }
                        let mut it = items.clone();
                        it[i] = Item::ValueItem(val.clone());
                        out.push((format!("slot_unkey[{}]", i), with_items(it)));
                        let mut it = items.clone();
                        it[i] = Item::ValueItem(k.clone());
                        out.push((format!("slot_keyonly[{}]", i), with_items(it)));
                        for alt in alternatives(val) {
                            let mut it = items.clone();
                            it[i] = Item::Slot(k.clone(), alt);
                            out.push((format!("slot_value_replace[{}]", i), with_items(it)));
                        }
                        if depth > 0 {
                            let mut sub = vec![];
                            mutate(val, names, depth - 1, &mut sub);
                            for (op, nv) in sub {
                                let mut it = items.clone();
                                it[i] = Item::Slot(k.clone(), nv);
                                out.push((format!("slot[{}]/{}", i, op), with_items(it)));
                            }
                        }
                    }
                    Item::ValueItem(val) => {
                        let mut it = items.clone();
                        it[i] = Item::Slot(Value::text("zz"), val.clone());
                        out.push((format!("item_key[{}]", i), with_items(it)));
                        for alt in alternatives(val) {
                            let mut it = items.clone();
                            it[i] = Item::ValueItem(alt);
                            out.push((format!("item_replace[{}]", i), with_items(it)));
                        }
                        if depth > 0 {
                            let mut sub = vec![];
                            mutate(val, names, depth - 1, &mut sub);
                            for (op, nv) in sub {
                                let mut it = items.clone();
                                it[i] = Item::ValueItem(nv);
                                out.push((format!("item[{}]/{}", i, op), with_items(it)));
                            }
                        }
                    }
                }
            }
            let mut it = items.clone();
            it.push(Item::Slot(Value::text("zz"), Value::Int32Value(7)));
            out.push(("slot_append".to_string(), with_items(it)));
            let mut it = items.clone();
            it.push(Item::ValueItem(Value::Int32Value(7)));
            out.push(("item_append".to_string(), with_items(it)));
        }
        prim => {
            for alt in alternatives(prim) {
                out.push(("replace".to_string(), alt));
            }
        }
    }
}

fn tokens(text: &str) -> Vec<String> {
    let mut out = vec![];
    let cs: Vec<char> = text.chars().collect();
    let mut i = 0;
    while i < cs.len() {
        let c = cs[i];
        if c.is_whitespace() {
            i += 1;
        } else if "@(){}:,".contains(c) {
            out.push(c.to_string());
            i += 1;
        } else if c == '"' {
            let mut s = String::from('"');
            i += 1;
            while i < cs.len() {
                s.push(cs[i]);
                if cs[i] == '\\' && i + 1 < cs.len() {
                    s.push(cs[i + 1]);
                    i += 2;
                    continue;
                }
                if cs[i] == '"' {
                    i += 1;
                    break;
                }
                i += 1;
            }
            out.push(s);
        } else {
            let mut s = String::new();
            while i < cs.len() && !cs[i].is_whitespace() && !"@(){}:,\"".contains(cs[i]) {
                s.push(cs[i]);
                i += 1;
            }
            out.push(s);
        }
    }
    out
}

fn is_word(t: &str) -> bool {
    !(t.len() == 1 && "@(){}:,".contains(t))
}

fn join(ts: &[String]) -> String {
    let mut s = String::new();
    for (i, t) in ts.iter().enumerate() {
        if i > 0 && is_word(&ts[i - 1]) && is_word(t) {
            s.push(' ');
        }
        s.push_str(t);
    }
    s
}

const SUBSTITUTES: [&str; 10] = ["@", "(", ")", "{", "}", ":", ",", "zz", "7", "\"\""];

/// Every single-token deletion, duplication, adjacent transposition and substitution (by each
/// punctuation token and three literals) of a Recon text.
pub fn token_mutations(text: &str, substitute: bool) -> Vec<(String, String)> {
    let ts = tokens(text);
    let mut out = vec![];
    for i in 0..ts.len() {
        let mut t = ts.clone();
        t.remove(i);
        out.push((format!("delete[{}]", i), join(&t)));
        let mut t = ts.clone();
        t.insert(i, ts[i].clone());
        out.push((format!("duplicate[{}]", i), join(&t)));
        if i + 1 < ts.len() {
            let mut t = ts.clone();
            t.swap(i, i + 1);
            out.push((format!("transpose[{}]", i), join(&t)));
        }
        for sub in SUBSTITUTES {
            if substitute && ts[i] != sub {
                let mut t = ts.clone();
                t[i] = sub.to_string();
                out.push((format!("substitute[{}<-{}]", i, sub), join(&t)));
            }
        }
    }
    out
}

//! C05 - Persisted state is never older than what was published; restart restores it.
//! Engine E1 used as a fault enumerator: the real agent + runtime with a recording
//! `NodePersistence`; for every explored schedule every cut point (crash after each harness step,
//! kill right after each store call, refusal of each store call, clean stop), then a second
//! instance is started on the same store and its `on_start` observation is compared with the store.

/// The store isolation leg of C13 (same source file): C05's chain ends in the store, and what was
/// handed over comes back at restart only if the store keeps the items of a plane apart.
mod late;
#[path = "../../c13/src/wide.rs"]
mod wide;

mod exec {
    use swimos_api::error::StoreError;
    use swimos_api::persistence::ServerPersistence;
    use swimos_server_app::verif_hooks::InMemoryPlanePersistence;

    pub struct MemServer;

    impl ServerPersistence for MemServer {
        type PlaneStore = InMemoryPlanePersistence;
        fn open_plane(&self, _name: &str) -> Result<Self::PlaneStore, StoreError> {
            Ok(InMemoryPlanePersistence::default())
        }
    }

    pub fn rocks_opts(_default_opts: bool) -> swimos_rocks_store::RocksOpts {
        let mut o = swimos_rocks_store::default_db_opts();
        o.0.set_max_file_opening_threads(1);
        o
    }
}

static DIR_SEQ: std::sync::atomic::AtomicU64 = std::sync::atomic::AtomicU64::new(0);

pub fn fresh_dir(root: &std::path::Path, tag: &str) -> std::path::PathBuf {
    let n = DIR_SEQ.fetch_add(1, std::sync::atomic::Ordering::Relaxed);
    let d = root.join("target").join("tmp").join(format!("c05-{}-{}-{}", std::process::id(), tag, n));
    let _ = std::fs::remove_dir_all(&d);
    std::fs::create_dir_all(&d).unwrap_or_else(|e| vcommon::machinery_failure(&format!("cannot create {}: {}", d.display(), e)));
    d
}

use asys::grid::{replay, run_grid, GridSpec};
use asys::oracle::check_c05;
use asys::scripts::*;
use asys::world::{set_checker, AsWorld, Cfg, Mode, Step, StoreMode};
use vcommon::sched::run_one;
use vcommon::Ctx;

fn scripts() -> Vec<(Vec<(usize, Step)>, usize)> {
    let mut out = vec![];
    out.push((sequential(&[vec![sync("v"), cmd("v", "1"), cmd("v", "2"), act(&["@setvs(5)", "@updms{k:1,v:2}"])]]), 1));
    out.push((sequential(&[vec![sync("m"), act(&["@upd{k:1,v:1}", "@upd{k:2,v:2}"]), act(&["@rem(1)", "@upd{k:3,v:3}"]), cmd("m", "@clear"), act(&["@upd{k:4,v:4}"])]]), 1));
    out.push((sequential(&[vec![link("v"), link("t"), act(&["@sett(9)", "@setv(3)"]), cmd("t", "8")]]), 1));
    out.push((sequential(&[vec![act(&["@setv(1)", "@setw(2)", "@upd{k:1,v:1}"]), sync("v"), sync("w"), sync("m")]]), 1));
    out.push((sequential(&[vec![act(&["@updms{k:1,v:1}", "@updms{k:2,v:2}", "@remms(1)"]), act(&["@clrms", "@updms{k:3,v:3}", "@setvs(7)"])]]), 1));
    // a sync served while a change of the lane is still pending inside the agent
    out.push((sequential(&[vec![link("v"), cmd("v", "1"), cmd("v", "2"), sync("v"), cmd("v", "3")]]), 1));
    out.push((sequential(&[vec![cmd("m", "@update(key:1) 1"), cmd("m", "@update(key:2) 2"), sync("m"), cmd("m", "@remove(key:1)")]]), 1));
    // the write task reaches its inactivity timeout and votes to stop while the read task is kept busy
    // by commands that change no lane; the next lane event rescinds the vote
    out.push((sequential(&[vec![link("v"), cmd("v", "1"), Step::Wait(6), act(&[]), Step::Wait(6), cmd("v", "2")]]), 1));
    out.push((sequential(&[vec![link("m"), cmd("m", "@update(key:1) 1"), Step::Wait(6), act(&[]), Step::Wait(6), cmd("m", "@update(key:1) 2"), Step::Wait(6), act(&[]), Step::Wait(6), cmd("m", "@remove(key:1)")]]), 1));
    out.push((sequential(&[vec![act(&["@setvs(5)"]), Step::Wait(6), act(&[]), Step::Wait(6), act(&["@setvs(6)", "@updms{k:1,v:2}"])]]), 1));
    for s in asys::scripts::interleavings(&[vec![link("v"), cmd("v", "1"), cmd("v", "2")], vec![sync("v")]]) {
        out.push((s, 2));
    }
    for s in [
        sequential(&[vec![link("v"), link("m")], vec![cmd("v", "1"), act(&["@upd{k:1,v:1}", "@clr", "@upd{k:2,v:2}"]), cmd("v", "2")]]),
        vec![(0, link("v")), (1, cmd("v", "1")), (0, link("m")), (1, act(&["@upd{k:1,v:1}", "@upd{k:1,v:2}"])), (1, cmd("v", "2"))],
    ] {
        out.push((s, 2));
    }
    out
}

/// Scripts for the pair agent (`asys::agent2`): lanes and stores whose numeric item ids coincide,
/// holding equal values at different times.
fn pair_scripts() -> Vec<(Vec<(usize, Step)>, usize)> {
    vec![
        (sequential(&[vec![link("v"), link("w"), act(&["@setv(1)", "@setw(1)"]), act(&["@setvs(2)", "@setws(2)"]), act(&["@setv(2)", "@setw(2)"])]]), 1),
        (sequential(&[vec![link("v"), act(&["@setvs(1)", "@setws(1)"]), act(&["@setv(2)", "@setw(2)"]), act(&["@setvs(2)", "@setws(2)"]), cmd("v", "3"), cmd("w", "3"), act(&["@setvs(3)", "@setws(3)"])]]), 1),
        // a value with the empty encoding (None) is the last one handed to the store
        (sequential(&[vec![link("o"), act(&["@seto(5)"]), act(&["@clro"])]]), 1),
        (sequential(&[vec![sync("o"), act(&["@clro"]), act(&["@seto(6)", "@setv(1)"]), act(&["@clro"])]]), 1),
        // map entries whose value has the empty encoding (None), then a restart
        (sequential(&[vec![link("O"), act(&["@updom{k:1,v:5}", "@nilom(2)"]), act(&["@nilom(1)", "@updom{k:3,v:4}"])]]), 1),
        (sequential(&[vec![sync("O"), act(&["@nilom(1)"]), act(&["@nilom(2)", "@remom(1)"]), act(&["@updom{k:2,v:2}", "@nilom(3)"])]]), 1),
        (sequential(&[vec![sync("w"), cmd("w", "5"), act(&["@setws(6)", "@setvs(6)"]), cmd("w", "6"), cmd("v", "6"), act(&["@setws(5)"]), cmd("w", "5")]]), 1),
    ]
}

fn base(script: &[(usize, Step)], remotes: usize, cap: usize, budget: usize, mode: Mode) -> Cfg {
    let mut c = Cfg::basic(script.to_vec(), remotes);
    // capacity 17 stands for: large remote channel, tiny (8 byte) lane -> runtime channels
    let (cap, lane_buf) = if cap == 17 { (4096, 8) } else { (cap, 4096) };
    c.lane_buf = lane_buf;
    c.cap = cap;
    c.budget = budget;
    c.mode = mode;
    c.store = StoreMode::Recording;
    c.restart = true;
    c
}

fn main() {
    // the injected kill points unwind through the agent future; keep stderr quiet for them
    let default_hook = std::panic::take_hook();
    std::panic::set_hook(Box::new(move |info| {
        let msg = info.payload().downcast_ref::<String>().map(|s| s.as_str()).or_else(|| info.payload().downcast_ref::<&str>().copied()).unwrap_or("");
        if !msg.contains("verif: store kill point") {
            default_hook(info);
        }
    }));
    let ctx = Ctx::from_env("C05");
    set_checker(check_c05);
    if let Some(r) = ctx.replay_request() {
        if r["leg"].as_str() == Some("wt-late-lane") {
            for (sig, det) in late::replay(&r["detail"]) {
                ctx.violation("replay", &sig, det);
            }
            ctx.finish("fault_enumeration", "replay");
        }
        if r["detail"]["kind"].as_str() == Some("wide") {
            wide::replay(&ctx, &r["detail"], &ctx.root);
            ctx.finish("fault_enumeration", "replay");
        }
        replay(&ctx, r);
        ctx.finish("fault_enumeration", "replay");
    }
    let quick = ctx.quick();
    if std::env::var("C05_ONLY_LATE").is_ok() {
        // debugging aid: only the write-task seam leg
        late::run(&ctx);
        ctx.finish("fault_enumeration", "debug: wt-late-lane only");
    }
    if !vcommon::sched::is_worker() {
        wide::run_leg_sized(&ctx, &ctx.root, "store-keeps-items-apart", if quick { 1_100 } else { 66_000 });
        late::run(&ctx);
    }
    let sc = scripts();
    let grid: Vec<(usize, usize, Mode)> = if quick { vec![(8, 2, Mode::Eager), (4096, 64, Mode::Burst), (17, 64, Mode::Burst), (17, 2, Mode::Eager)] } else { vec![(8, 2, Mode::Eager), (8, 64, Mode::SlowRead), (4096, 64, Mode::Burst), (48, 3, Mode::Eager), (17, 64, Mode::Burst), (17, 2, Mode::Eager), (17, 3, Mode::SlowRead)] };

    // --- leg 1: every cut point of the canonical schedule of every configuration
    let mut cut_cfgs = vec![];
    let mut sched_cfgs = vec![];
    for (script, remotes) in &sc {
        for &(cap, budget, mode) in &grid {
            let b = base(script, *remotes, cap, budget, mode);
            let len = match run_one::<AsWorld>(&b, &[], false) {
                Ok(r) => r.choices.len() as u64,
                Err(e) => vcommon::machinery_failure(&format!("canonical run failed: {}", e)),
            };
            sched_cfgs.push(b.clone());
            for k in 1..=len {
                let mut c = b.clone();
                c.crash_at = Some(k);
                cut_cfgs.push(c);
            }
            for n in 0..(if quick { 16 } else { 30 }) {
                for kind in [0u8, 1u8] {
                    let mut c = b.clone();
                    c.store_fault = Some((kind, n));
                    cut_cfgs.push(c);
                }
            }
        }
    }
    // the pair agent: item ids of lanes and stores coincide
    for (script, remotes) in &pair_scripts() {
        for &(cap, budget, mode) in &grid {
            let mut b = base(script, *remotes, cap, budget, mode);
            b.extra = "pair-agent".into();
            let len = match run_one::<AsWorld>(&b, &[], false) {
                Ok(r) => r.choices.len() as u64,
                Err(e) => vcommon::machinery_failure(&format!("canonical run failed: {}", e)),
            };
            sched_cfgs.push(b.clone());
            for k in 1..=len {
                let mut c = b.clone();
                c.crash_at = Some(k);
                cut_cfgs.push(c);
            }
            // ... and on the real in-memory store (the pair agent has two items whose names are equal
            // up to case: a store that folds names would alias them)
            if (cap, budget, mode) == grid[0] {
                let mut m = b.clone();
                m.store = StoreMode::RecordingOverMem { abandoned: false };
                sched_cfgs.push(m.clone());
                for k in (1..=len).step_by(if quick { 3 } else { 1 }) {
                    let mut c = m.clone();
                    c.crash_at = Some(k);
                    cut_cfgs.push(c);
                }
            }
        }
    }
    // the real in-memory store of swimos_server_app behind the recorder, with and without a
    // request for the node store that is dropped unused while the first instance runs
    for (script, remotes) in sc.iter().take(if quick { 3 } else { sc.len() }) {
        for &(cap, budget, mode) in grid.iter().take(2) {
            for abandoned in [false, true] {
                let mut b = base(script, *remotes, cap, budget, mode);
                b.store = StoreMode::RecordingOverMem { abandoned };
                let len = match run_one::<AsWorld>(&b, &[], false) {
                    Ok(r) => r.choices.len() as u64,
                    Err(e) => vcommon::machinery_failure(&format!("canonical run failed: {}", e)),
                };
                sched_cfgs.push(b.clone());
                for k in (1..=len).step_by(if quick { 3 } else { 1 }) {
                    let mut c = b.clone();
                    c.crash_at = Some(k);
                    cut_cfgs.push(c);
                }
            }
        }
    }
    run_grid(&ctx, GridSpec { name: "cuts-canonical".into(), cfgs: cut_cfgs.clone(), bound: 0, max_exec_per_cfg: 10, wall_cap_s: if quick { 20.0 } else { 600.0 } });

    // --- leg 2: schedules with <= 1 deviation (2 thorough), clean stop at the end or at any position
    let mut cfgs = vec![];
    for c in &sched_cfgs {
        cfgs.push(c.clone());
        let mut f = c.clone();
        f.fault_stop = true;
        cfgs.push(f);
        let mut t = c.clone();
        t.ticks = 1;
        t.final_stop = false;
        cfgs.push(t);
    }
    run_grid(&ctx, GridSpec { name: "sched-stop-restart".into(), cfgs, bound: if quick { 1 } else { 2 }, max_exec_per_cfg: if quick { 10_000 } else { 500_000 }, wall_cap_s: if quick { 20.0 } else { 900.0 } });

    // --- leg 3 (thorough): every cut point of every schedule with <= 1 deviation
    if !quick {
        run_grid(&ctx, GridSpec { name: "cuts-x-sched-d1".into(), cfgs: cut_cfgs, bound: 1, max_exec_per_cfg: 100_000, wall_cap_s: 1500.0 });
    }
    ctx.assume("the store is the harness's in-memory recorder (real stores: C13); a kill is modelled at harness-step and store-call boundaries, not inside a store call");
    ctx.assume("tokio select! start index and HashMap iteration order are fixed per VERIF_SEED, not enumerated");
    ctx.finish(
        "fault_enumeration",
        "every cut point (crash after each step, kill after / refusal of each store call, clean stop, inactivity stop) of every explored schedule of the real agent+runtime with a recording store, followed by a restart on the same store",
    );
}

fn main() {
    vcommon::machinery_failure("C05: engine not built yet");
}

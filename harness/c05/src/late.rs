//! Leg `wt-late-lane` (E4): the agent runtime's write task on its own, *with a store* (hook
//! `write_task_for_verif_store`, the recording store of `asys::store`). The agents built with
//! `swimos_agent`'s derive register all their lanes during initialisation; a lane registered by a
//! *running* agent (what connector agents do) takes a different path through the write task
//! (`WriteTaskMessage::Lane`), which the whole-agent legs never exercise. Here the harness plays
//! the agent: it registers a persistent value lane late, answers the initialisation handshake,
//! produces events on that lane and on an initial lane, and plays one remote.
//!
//! Every script over {register the late lane, link the remote to v / late, event on v / late,
//! stop + second incarnation} up to a length bound. Laws (C05): whatever the remote has received
//! for a persistent lane is in the store (the state a subscriber saw survives a restart), and a
//! second incarnation that registers the lane again is handed the last value of the first.

use asys::store::{RecStore, StoreLog};
use bytes::BytesMut;
use futures::StreamExt;
use serde_json::json;
use std::num::NonZeroUsize;
use std::sync::Arc;
use std::time::{Duration, Instant};
use swimos_agent_protocol::encoding::lane::{RawValueLaneRequestDecoder, RawValueLaneResponseEncoder};
use swimos_agent_protocol::{LaneRequest, LaneResponse};
use swimos_api::agent::{UplinkKind, WarpLaneKind};
use swimos_messages::protocol::{Notification, RawResponseMessageDecoder};
use swimos_runtime::agent::AgentRuntimeConfig;
use swimos_runtime::verif_hooks::{write_task_for_verif_store, WriteTaskHandles};
use swimos_utilities::byte_channel::{byte_channel, ByteReader, ByteWriter};
use tokio::io::AsyncWriteExt;
use tokio_util::codec::{Encoder, FramedRead};
use uuid::Uuid;
use vcommon::{Ctx, Leg};

const RID: Uuid = Uuid::from_u128(1000);

#[derive(Clone, Copy, Debug, PartialEq, Eq)]
pub enum LStep {
    Reg,
    LinkV,
    LinkLate,
    EvV(i32),
    EvLate(i32),
    /// stop the write task and start a second incarnation on the same store
    Restart,
}

impl LStep {
    fn name(&self) -> String {
        match self {
            LStep::Reg => "register(late)".into(),
            LStep::LinkV => "link(v)".into(),
            LStep::LinkLate => "link(late)".into(),
            LStep::EvV(x) => format!("event(v,{})", x),
            LStep::EvLate(x) => format!("event(late,{})", x),
            LStep::Restart => "restart".into(),
        }
    }
}

fn alphabet() -> Vec<LStep> {
    vec![LStep::Reg, LStep::LinkV, LStep::LinkLate, LStep::EvV(1), LStep::EvLate(7), LStep::EvLate(8), LStep::Restart]
}

struct Incarnation {
    h: WriteTaskHandles,
    task: tokio::task::JoinHandle<Result<(), swimos_api::error::StoreError>>,
    remote: FramedRead<ByteReader, RawResponseMessageDecoder>,
    late: Option<ByteWriter>,
    _late_rx: Option<FramedRead<ByteReader, RawValueLaneRequestDecoder>>,
}

async fn settle() {
    tokio::time::sleep(Duration::from_millis(1)).await;
}

fn start(log: &Arc<StoreLog>, instance: u32) -> Incarnation {
    let config = AgentRuntimeConfig::default();
    let store = RecStore { log: log.clone(), instance };
    let (task, h) = write_task_for_verif_store(Uuid::from_u128(7), "/node", config, vec![("v", UplinkKind::Value, false)], NonZeroUsize::new(4096).unwrap(), store);
    let task = tokio::spawn(task);
    let (tx, rx) = byte_channel(NonZeroUsize::new(1 << 16).unwrap());
    let _ = h.attach_remote(RID, tx);
    Incarnation { h, task, remote: FramedRead::new(rx, RawResponseMessageDecoder), late: None, _late_rx: None }
}

async fn write_event(w: &mut ByteWriter, x: i32) -> bool {
    let body = x.to_string();
    let mut buf = BytesMut::new();
    RawValueLaneResponseEncoder::default().encode(LaneResponse::StandardEvent(body.as_bytes()), &mut buf).expect("encode");
    tokio::time::timeout(Duration::from_secs(5), w.write_all(&buf)).await.map(|r| r.is_ok()).unwrap_or(false)
}

pub struct CaseResult {
    pub log: Vec<String>,
    pub violations: Vec<(String, String)>,
    pub late_events_seen: usize,
}

async fn run_case(script: &[LStep]) -> Result<CaseResult, String> {
    let log_store = Arc::new(StoreLog::default());
    let mut inc = start(&log_store, 1);
    let mut instance = 1u32;
    let mut log: Vec<String> = vec![];
    let mut violations: Vec<(String, String)> = vec![];
    // per lane: the last value the remote has received
    let mut seen: std::collections::BTreeMap<String, String> = Default::default();
    let mut late_events_seen = 0usize;
    // per lane: every value the agent has produced, in order (across incarnations)
    let mut produced: std::collections::BTreeMap<String, Vec<String>> = Default::default();
    settle().await;
    for st in script {
        match st {
            LStep::Reg => {
                if inc.late.is_none() {
                    if let Some(p) = inc.h.register_lane("late", WarpLaneKind::Value, false) {
                        match tokio::time::timeout(Duration::from_secs(5), p).await {
                            Ok(Ok(Ok((tx, rx)))) => {
                                // the initialisation handshake: the runtime hands over what the store holds
                                let mut reqs = FramedRead::new(rx, RawValueLaneRequestDecoder::default());
                                let mut restored: Option<String> = None;
                                loop {
                                    match tokio::time::timeout(Duration::from_secs(5), reqs.next()).await {
                                        Ok(Some(Ok(LaneRequest::InitComplete))) => break,
                                        Ok(Some(Ok(LaneRequest::Command(b)))) => restored = Some(String::from_utf8_lossy(&b).to_string()),
                                        Ok(Some(Ok(_))) => {}
                                        Ok(Some(Err(e))) => return Err(format!("late lane initialisation: undecodable request: {}", e)),
                                        Ok(None) => return Err("late lane initialisation: the request channel closed".into()),
                                        Err(_) => return Err("late lane initialisation did not complete".into()),
                                    }
                                }
                                let mut tx = tx;
                                let mut buf = BytesMut::new();
                                RawValueLaneResponseEncoder::default().encode(LaneResponse::<&[u8]>::Initialized, &mut buf).expect("encode");
                                if tx.write_all(&buf).await.is_err() {
                                    return Err("could not acknowledge the initialisation".into());
                                }
                                log.push(format!("[{}] late lane registered; restored {:?}", instance, restored));
                                if instance > 1 {
                                    let want = seen.get("late").cloned();
                                    if let Some(w) = want {
                                        // (what was seen, or a value the lane produced after it)
                                        let list = produced.get("late").cloned().unwrap_or_default();
                                        let seen_at = list.iter().rposition(|x| *x == w);
                                        let restored_at = restored.as_ref().and_then(|rv| list.iter().rposition(|x| x == rv));
                                        if !matches!((seen_at, restored_at), (Some(a), Some(b)) if b >= a) {
                                            violations.push((
                                                "law=late_lane_restored_to_what_was_seen".into(),
                                                format!("the remote had received {:?} on lane late from the first incarnation; the second was handed {:?}; log {:?}", w, restored, log),
                                            ));
                                        }
                                    }
                                }
                                inc.late = Some(tx);
                                inc._late_rx = Some(reqs);
                            }
                            Ok(Ok(Err(e))) => return Err(format!("late lane registration refused: {}", e)),
                            Ok(Err(_)) => return Err("late lane registration: promise dropped".into()),
                            Err(_) => return Err("late lane registration did not complete".into()),
                        }
                    }
                }
            }
            LStep::LinkV => {
                inc.h.link(RID, "v");
            }
            LStep::LinkLate => {
                inc.h.link(RID, "late");
            }
            LStep::EvV(x) => {
                let w = &mut inc.h.lanes[0].2;
                if write_event(w, *x).await {
                    produced.entry("v".into()).or_default().push(x.to_string());
                }
            }
            LStep::EvLate(x) => {
                if let Some(w) = inc.late.as_mut() {
                    if write_event(w, *x).await {
                        produced.entry("late".into()).or_default().push(x.to_string());
                    }
                }
            }
            LStep::Restart => {
                if let Some(s) = inc.h.stop.take() {
                    s.trigger();
                }
                let _ = tokio::time::timeout(Duration::from_secs(60), &mut inc.task).await;
                // whatever was still on its way to the remote
                while let Ok(Some(Ok(m))) = tokio::time::timeout(Duration::from_millis(5), inc.remote.next()).await {
                    if let Notification::Event(b) = m.envelope {
                        seen.insert(m.path.lane.to_string(), String::from_utf8_lossy(&b).to_string());
                    }
                }
                instance += 1;
                inc = start(&log_store, instance);
            }
        }
        settle().await;
        // what the remote has received so far
        while let Ok(Some(Ok(m))) = tokio::time::timeout(Duration::from_millis(2), inc.remote.next()).await {
            if let Notification::Event(b) = m.envelope {
                let lane = m.path.lane.to_string();
                if lane == "late" {
                    late_events_seen += 1;
                }
                seen.insert(lane, String::from_utf8_lossy(&b).to_string());
            }
        }
        log.push(format!("[{}] {} -> remote has seen {:?}", instance, st.name(), seen));
        // C05: what a subscriber has seen of a persistent lane is in the store
        let state = log_store.state.lock();
        for (lane, val) in &seen {
            let stored = state.ids.get(lane).and_then(|id| state.values.get(id)).map(|v| String::from_utf8_lossy(v).to_string());
            // the store holds what the subscriber saw, or a value the lane produced later (a later
            // incarnation may have gone on without this subscriber)
            let list = produced.get(lane).cloned().unwrap_or_default();
            let seen_at = list.iter().rposition(|x| x == val);
            let stored_at = stored.as_ref().and_then(|sv| list.iter().rposition(|x| x == sv));
            let ok = matches!((seen_at, stored_at), (Some(a), Some(b)) if b >= a);
            if !ok {
                let sig = format!("law=seen_by_a_subscriber_implies_stored lane={}", if lane == "late" { "registered_late" } else { "initial" });
                if !violations.iter().any(|(s, _)| *s == sig) {
                    violations.push((sig, format!("the remote has received {:?} on persistent lane {} but the store holds {:?}; log {:?}", val, lane, stored, log)));
                }
            }
        }
    }
    inc.task.abort();
    Ok(CaseResult { log, violations, late_events_seen })
}

pub fn run_one(script: &[LStep]) -> Result<CaseResult, String> {
    let script = script.to_vec();
    std::thread::spawn(move || {
        let rt = tokio::runtime::Builder::new_current_thread().enable_all().start_paused(true).build().map_err(|e| e.to_string())?;
        rt.block_on(run_case(&script))
    })
    .join()
    .unwrap_or_else(|_| Err("panic: the write task or the harness panicked".into()))
}

fn scripts(max_len: usize) -> Vec<Vec<LStep>> {
    let al = alphabet();
    let mut out: Vec<Vec<LStep>> = vec![];
    let mut layer: Vec<Vec<LStep>> = vec![vec![]];
    for _ in 0..max_len {
        let mut next = vec![];
        for s in &layer {
            for a in &al {
                if *a == LStep::Restart && s.iter().filter(|x| **x == LStep::Restart).count() >= 1 {
                    continue;
                }
                let mut t = s.clone();
                t.push(*a);
                next.push(t);
            }
        }
        out.extend(next.iter().cloned());
        layer = next;
    }
    out
}

pub fn run(ctx: &Ctx) {
    if vcommon::sched::is_worker() {
        return;
    }
    let t0 = Instant::now();
    let sc = scripts(if ctx.quick() { 4 } else { 6 });
    let results = vcommon::par_map(&sc, vcommon::ncpu(), |_, s| run_one(s));
    let mut seen = std::collections::BTreeSet::new();
    let mut nontrivial = 0u64;
    for (s, r) in sc.iter().zip(results.iter()) {
        let names: Vec<String> = s.iter().map(|a| a.name()).collect();
        match r {
            Err(e) => {
                if e.starts_with("panic") {
                    if seen.insert("law=no_panic".to_string()) {
                        ctx.violation("wt-late-lane", "law=no_panic", json!({"leg": "wt-late-lane", "script": names, "explanation": e, "what": e}));
                    }
                } else {
                    vcommon::machinery_failure(&format!("wt-late-lane: {} (script {:?})", e, names));
                }
            }
            Ok(c) => {
                if c.late_events_seen > 0 {
                    nontrivial += 1;
                }
                for (sig, expl) in &c.violations {
                    if seen.insert(sig.clone()) {
                        ctx.violation("wt-late-lane", sig, json!({"leg": "wt-late-lane", "script": names, "log": c.log, "explanation": expl, "what": expl}));
                    }
                }
            }
        }
    }
    let n = sc.len() as u64;
    ctx.add_leg(Leg {
        name: "wt-late-lane".into(),
        engine: "E4-enum".into(),
        states: n,
        transitions: sc.iter().map(|s| s.len() as u64).sum(),
        evaluations: n,
        distinct_nontrivial: nontrivial,
        rule: "every script over {register a persistent lane late, link the remote to v / late, event on v, two events on late, restart (at most once)} up to the length bound, on the real write task with a recording store; non-trivial = the remote received an event of the late lane".into(),
        samples: vec![json!(["register(late)", "link(late)", "event(late,7)", "restart", "register(late)"])],
        exhaustive: true,
        bounds: json!({"script_length": if ctx.quick() { 4 } else { 6 }, "restarts": 1}),
        wall_s: t0.elapsed().as_secs_f64(),
    });
}

pub fn replay(d: &serde_json::Value) -> Vec<(String, serde_json::Value)> {
    let al = alphabet();
    let script: Vec<LStep> = d["script"].as_array().map(|a| a.iter().filter_map(|x| x.as_str().and_then(|n| al.iter().find(|s| s.name() == n).copied())).collect()).unwrap_or_default();
    match run_one(&script) {
        Ok(c) => {
            for l in &c.log {
                println!("{}", l);
            }
            c.violations.into_iter().map(|(s, e)| (s, json!({"leg": "wt-late-lane", "script": d["script"], "explanation": e}))).collect()
        }
        Err(e) => vec![("law=no_panic".into(), json!({"leg": "wt-late-lane", "script": d["script"], "explanation": e}))],
    }
}

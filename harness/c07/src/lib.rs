//! C07 - A shared downlink serves every consumer a complete, ordered session.
//! Engine E1: the real `ValueDownlinkRuntime::run()` / `MapDownlinkRuntime::run()` future under
//! the deviation-bounded schedule explorer. Harness actors: the "socket" (a reactive lane model
//! that answers the @link/@sync/@command requests it reads, at a schedule-chosen pace, plus
//! scripted external lane changes) and 1-3 consumers that attach at enumerated positions with
//! different options, write command streams and read notifications.

use bytes::BytesMut;
use serde_json::json;
use std::collections::{BTreeMap, BTreeSet};
use std::num::NonZeroUsize;
use std::pin::Pin;
use std::sync::Arc;
use std::task::{Context, Poll};
use std::time::{Duration, Instant};
use swimos_agent_protocol::encoding::downlink::{DownlinkOperationEncoder, MapNotificationDecoder, ValueNotificationDecoder};
use swimos_agent_protocol::encoding::map::MapOperationEncoder;
use swimos_agent_protocol::{DownlinkNotification, DownlinkOperation, MapMessage, MapOperation};
use swimos_api::address::RelativeAddress;
use swimos_messages::protocol::{Notification, Operation, RawRequestMessageDecoder, RawResponseMessageEncoder, ResponseMessage};
use swimos_model::Text;
use swimos_runtime::downlink::failure::{AlwaysAbortStrategy, AlwaysIgnoreStrategy};
use swimos_runtime::downlink::{AttachAction, DownlinkOptions, DownlinkRuntimeConfig, IdentifiedAddress, MapDownlinkRuntime, ValueDownlinkRuntime};
use swimos_utilities::byte_channel::{byte_channel, BudgetedFutureExt, ByteReader, ByteWriter};
use swimos_utilities::trigger;
use tokio::io::{AsyncRead, AsyncWrite, ReadBuf};
use tokio::sync::mpsc;
use tokio_util::codec::{Decoder, Encoder};
use uuid::Uuid;
use vcommon::sched::{run_one, ExploreStats, Outcome, Subject, WakeFlag, World};
use vcommon::{Ctx, Leg};

#[derive(Clone, Copy, Debug, PartialEq, Eq, serde::Serialize, serde::Deserialize)]
pub enum Kind {
    Value,
    Map,
}

#[derive(Clone, Copy, Debug, PartialEq, Eq, serde::Serialize, serde::Deserialize)]
enum Mode {
    Eager,
    Burst,
    SlowRead,
    /// The socket reads eagerly until it has seen the @link request and lazily afterwards: the
    /// runtime gets past its initial `send_link` and is then polled after every consumer step
    /// while its output is blocked, so commands pile up in the backpressure relief queue.
    SlowAfterLink,
}

/// Lane operation: a command a consumer writes, or an external change of the remote lane.
#[derive(Clone, Debug, PartialEq, Eq, serde::Serialize, serde::Deserialize)]
enum LOp {
    Set(Option<i32>),
    Upd(i32, i32),
    Rem(i32),
    Clr,
    /// (remote lane only) an event whose body is no map operation: the map runtime cannot interpret it
    Bad,
}

#[derive(Clone, Debug, PartialEq, Eq, serde::Serialize, serde::Deserialize)]
enum Step {
    /// consumer: attach with (sync, keep_linked)
    Attach(bool, bool),
    /// consumer: write a command
    Cmd(LOp),
    /// consumer: drop both channel ends
    Drop,
    /// consumer: drop only the end on which it writes commands / only the end on which it reads
    /// notifications (the write task resp. the read task of the runtime loses the consumer)
    DropTx,
    DropRx,
    /// socket: the remote lane changes for an external reason
    Lane(LOp),
    /// socket: the remote lane closes the link
    Unlinked,
    /// any actor: the (paused) clock advances by n tenths of the empty timeout; only offered
    /// while the runtime has nothing to do
    Wait(u32),
}

#[derive(Clone, Debug, serde::Serialize, serde::Deserialize)]
struct Cfg {
    kind: Kind,
    /// (actor, step): actor 0 = socket, 1.. = consumers
    script: Vec<(usize, Step)>,
    consumers: usize,
    remote_buf: usize,
    dl_buf: usize,
    sock_credit: usize,
    budget: usize,
    mode: Mode,
    /// full clock ticks (empty timeout + 1 ms) performed at quiescence
    #[serde(default)]
    ticks: u32,
    /// do not trigger the stop signal at the end (the runtime has to stop on its own)
    #[serde(default)]
    no_final_stop: bool,
    /// seed of the runtime's random number generator: the downlink read task's `select!` between
    /// new consumers and incoming messages is unbiased
    #[serde(default)]
    seed: u64,
    /// map runtime: bad frames are ignored (`AlwaysIgnoreStrategy`, what `abort_on_bad_frames: false`
    /// selects) instead of ending the runtime
    #[serde(default)]
    ignore_bad: bool,
}

type LaneState = BTreeMap<i32, i32>; // value lane: key 0 -> value; absent = Extant/None

/// What the socket (lane model) will write next.
#[derive(Clone, Debug, PartialEq, Eq)]
enum Out {
    Linked,
    /// a lane change: applied to the lane state and announced when it is written
    Change(LOp),
    /// the answer to a @sync: expands into the current entries + synced when it reaches the head
    SyncReply,
    /// one entry of a sync reply (does not change the state)
    SyncEvent(LOp),
    Synced,
    Unlinked,
}

#[derive(Clone, Debug, PartialEq, Eq)]
enum Note {
    Linked,
    Synced,
    Event(LOp),
    Unlinked,
}

struct Consumer {
    queue: Vec<Step>,
    pos: usize,
    tx: Option<ByteWriter>,
    rx: Option<ByteReader>,
    rx_flag: Arc<WakeFlag>,
    inbuf: BytesMut,
    vdec: ValueNotificationDecoder<Option<i32>>,
    mdec: MapNotificationDecoder<i32, i32>,
    notes: Vec<(u64, Note)>,
    sent: Vec<(u64, LOp)>,
    attach: Option<(u64, bool, bool)>,
    dropped_at: Option<u64>,
    closed_at: Option<u64>,
    decode_error: Option<String>,
    notes_at_quiescence: Option<usize>,
}

struct Sock {
    queue: Vec<Step>,
    pos: usize,
    tx: Option<ByteWriter>, // socket -> runtime (responses)
    rx: Option<ByteReader>, // runtime -> socket (requests)
    rx_flag: Arc<WakeFlag>,
    inbuf: BytesMut,
    out_queue: std::collections::VecDeque<Out>,
    linked: bool,
    state: LaneState,
    /// (step, state) after every change
    history: Vec<(u64, LaneState)>,
    /// every event frame written to the runtime, in order
    events_sent: Vec<(u64, LOp)>,
    requests: Vec<(u64, String, String)>, // (step, kind, body)
    /// (step, lane state) at every `synced` the lane wrote
    synced_sent: Vec<(u64, LaneState)>,
    unlinked_sent: Option<u64>,
    closed: bool,
}

struct DlWorld {
    cfg: Cfg,
    subject: Subject<()>,
    att_tx: Option<mpsc::Sender<AttachAction>>,
    stop_tx: Option<trigger::Sender>,
    sock: Sock,
    cons: Vec<Consumer>,
    step: u64,
    quiescent_seen: bool,
    stop_fired: Option<u64>,
    trace_on: bool,
    trace: Vec<String>,
    clock_start: Option<tokio::time::Instant>,
    /// virtual milliseconds after each step (index = step)
    times: Vec<u64>,
    completed_step: Option<u64>,
    ticks_done: u32,
}

const EV_TICK: u32 = 4;
const EV_POLL: u32 = 0;
const EV_SOCK_RECV: u32 = 1;
const EV_SOCK_SEND: u32 = 2;
const EV_STOP: u32 = 3;
const EV_CONS_RECV: u32 = 100;
const EV_SCRIPT: u32 = 200;

fn read_now(r: &mut ByteReader, flag: &Arc<WakeFlag>, max: usize, out: &mut BytesMut) -> Result<Option<usize>, String> {
    let waker = flag.waker();
    let mut cx = Context::from_waker(&waker);
    let mut tmp = vec![0u8; if max == 0 { 8192 } else { max }];
    let mut total = 0usize;
    loop {
        let mut rb = ReadBuf::new(&mut tmp);
        flag.clear();
        match Pin::new(&mut *r).poll_read(&mut cx, &mut rb) {
            Poll::Ready(Ok(())) => {
                let n = rb.filled().len();
                if n == 0 {
                    if total == 0 {
                        return Ok(Some(0));
                    }
                    flag.set();
                    return Ok(Some(total));
                }
                out.extend_from_slice(rb.filled());
                total += n;
                if max != 0 {
                    flag.set();
                    return Ok(Some(total));
                }
            }
            Poll::Ready(Err(e)) => return Err(e.to_string()),
            Poll::Pending => {
                if flag.is_set() {
                    continue;
                }
                return Ok(if total == 0 { None } else { Some(total) });
            }
        }
    }
}

/// Write as much as the channel accepts right now; returns the number of bytes written.
fn write_some(w: &mut ByteWriter, data: &[u8]) -> Result<usize, String> {
    let flag = WakeFlag::new(false);
    let waker = flag.waker();
    let mut cx = Context::from_waker(&waker);
    let mut done = 0;
    while done < data.len() {
        match Pin::new(&mut *w).poll_write(&mut cx, &data[done..]) {
            Poll::Ready(Ok(n)) => done += n,
            Poll::Ready(Err(e)) => return Err(e.to_string()),
            Poll::Pending => {
                if flag.is_set() {
                    flag.clear();
                    continue;
                }
                break;
            }
        }
    }
    Ok(done)
}

fn lop_text(op: &LOp) -> String {
    match op {
        LOp::Set(Some(x)) => x.to_string(),
        LOp::Set(None) => String::new(),
        LOp::Upd(k, v) => format!("@update(key:{}) {}", k, v),
        LOp::Rem(k) => format!("@remove(key:{})", k),
        LOp::Clr => "@clear".to_string(),
        LOp::Bad => "@bogus(key:1) 5".to_string(),
    }
}

fn parse_lop(kind: Kind, body: &str) -> Option<LOp> {
    let b = body.trim();
    match kind {
        Kind::Value => {
            if b.is_empty() {
                Some(LOp::Set(None))
            } else {
                b.parse().ok().map(|x| LOp::Set(Some(x)))
            }
        }
        Kind::Map => {
            if b == "@clear" {
                Some(LOp::Clr)
            } else if let Some(rest) = b.strip_prefix("@update(key:") {
                let (k, v) = rest.split_once(')')?;
                Some(LOp::Upd(k.trim().parse().ok()?, v.trim().parse().ok()?))
            } else if let Some(rest) = b.strip_prefix("@remove(key:") {
                Some(LOp::Rem(rest.strip_suffix(')')?.trim().parse().ok()?))
            } else {
                None
            }
        }
    }
}

fn apply(state: &mut LaneState, op: &LOp) {
    match op {
        LOp::Set(Some(x)) => {
            state.insert(0, *x);
        }
        LOp::Set(None) => {
            state.remove(&0);
        }
        LOp::Upd(k, v) => {
            state.insert(*k, *v);
        }
        LOp::Rem(k) => {
            state.remove(k);
        }
        LOp::Clr => state.clear(),
        LOp::Bad => {}
    }
}

impl DlWorld {
    fn log(&mut self, s: String) {
        if self.trace_on {
            let ms = self.clock_start.map(|st| tokio::time::Instant::now().duration_since(st).as_millis()).unwrap_or(0);
            if std::env::var("PROBE_LOG").is_ok() {
                println!("[{} @{}ms] {}", self.step, ms, s);
            }
            self.trace.push(format!("[{} @{}ms] {}", self.step, ms, s));
        }
    }

    fn sock_change(&mut self, op: &LOp) {
        if self.sock.linked && self.sock.unlinked_sent.is_none() {
            self.sock.out_queue.push_back(Out::Change(op.clone()));
        } else {
            // nobody is linked: the lane just changes
            apply(&mut self.sock.state, op);
            let st = self.sock.state.clone();
            self.sock.history.push((self.step, st));
        }
    }

    fn next_script_actors(&self) -> Vec<usize> {
        let mut order: Vec<(usize, usize)> = vec![];
        let actors = self.cfg.consumers + 1;
        for a in 0..actors {
            let (pos, len, alive) = if a == 0 { (self.sock.pos, self.sock.queue.len(), true) } else { (self.cons[a - 1].pos, self.cons[a - 1].queue.len(), self.cons[a - 1].dropped_at.is_none()) };
            if pos < len && alive {
                let next = if a == 0 { &self.sock.queue[pos] } else { &self.cons[a - 1].queue[pos] };
                if matches!(next, Step::Wait(_)) && self.subject.runnable() {
                    continue;
                }
                let mut count = 0;
                let mut gidx = usize::MAX;
                for (g, (x, _)) in self.cfg.script.iter().enumerate() {
                    if *x == a {
                        if count == pos {
                            gidx = g;
                            break;
                        }
                        count += 1;
                    }
                }
                order.push((gidx, a));
            }
        }
        order.sort();
        order.into_iter().map(|(_, a)| a).collect()
    }
}

impl World for DlWorld {
    type Cfg = Cfg;

    fn new(cfg: &Cfg, trace: bool) -> Self {
        let (att_tx, att_rx) = mpsc::channel(16);
        let (stop_tx, stop_rx) = trigger::trigger();
        // runtime -> socket (requests) and socket -> runtime (responses)
        let (req_tx, req_rx) = byte_channel(NonZeroUsize::new(cfg.remote_buf).unwrap());
        let (resp_tx, resp_rx) = byte_channel(NonZeroUsize::new(1 << 16).unwrap());
        let address = IdentifiedAddress { identity: Uuid::from_u128(77), address: RelativeAddress::new(Text::new("/remote"), Text::new("lane")) };
        let config = DownlinkRuntimeConfig {
            empty_timeout: Duration::from_secs(30),
            attachment_queue_size: NonZeroUsize::new(16).unwrap(),
            abort_on_bad_frames: true,
            remote_buffer_size: NonZeroUsize::new(cfg.remote_buf).unwrap(),
            downlink_buffer_size: NonZeroUsize::new(cfg.dl_buf).unwrap(),
        };
        let budget = NonZeroUsize::new(cfg.budget.max(2)).unwrap();
        let subject: Subject<()> = match cfg.kind {
            Kind::Value => Subject::new(tokio::task::unconstrained(ValueDownlinkRuntime::new(att_rx, (req_tx, resp_rx), stop_rx, address, config).run().with_budget(budget))),
            Kind::Map if cfg.ignore_bad => Subject::new(tokio::task::unconstrained(MapDownlinkRuntime::new(att_rx, (req_tx, resp_rx), stop_rx, address, config, AlwaysIgnoreStrategy).run().with_budget(budget))),
            Kind::Map => Subject::new(tokio::task::unconstrained(MapDownlinkRuntime::new(att_rx, (req_tx, resp_rx), stop_rx, address, config, AlwaysAbortStrategy).run().with_budget(budget))),
        };
        let sock = Sock {
            queue: cfg.script.iter().filter(|(a, _)| *a == 0).map(|(_, s)| s.clone()).collect(),
            pos: 0,
            tx: Some(resp_tx),
            rx: Some(req_rx),
            rx_flag: WakeFlag::new(true),
            inbuf: BytesMut::new(),
            out_queue: Default::default(),
            linked: false,
            state: LaneState::new(),
            history: vec![(0, LaneState::new())],
            events_sent: vec![],
            requests: vec![],
            synced_sent: vec![],
            unlinked_sent: None,
            closed: false,
        };
        let cons = (1..=cfg.consumers)
            .map(|i| Consumer {
                queue: cfg.script.iter().filter(|(a, _)| *a == i).map(|(_, s)| s.clone()).collect(),
                pos: 0,
                tx: None,
                rx: None,
                rx_flag: WakeFlag::new(true),
                inbuf: BytesMut::new(),
                vdec: Default::default(),
                mdec: Default::default(),
                notes: vec![],
                sent: vec![],
                attach: None,
                dropped_at: None,
                closed_at: None,
                decode_error: None,
                notes_at_quiescence: None,
            })
            .collect();
        DlWorld { cfg: cfg.clone(), subject, att_tx: Some(att_tx), stop_tx: Some(stop_tx), sock, cons, step: 0, quiescent_seen: false, stop_fired: None, trace_on: trace, trace: vec![], clock_start: None, times: vec![0], completed_step: None, ticks_done: 0 }
    }

    fn enabled(&mut self) -> Vec<u32> {
        let mut poll = vec![];
        if self.subject.runnable() {
            poll.push(EV_POLL);
        }
        let mut sock = vec![];
        if self.sock.rx.is_some() && self.sock.rx_flag.is_set() {
            sock.push(EV_SOCK_RECV);
        }
        if !self.sock.out_queue.is_empty() && self.sock.tx.is_some() {
            sock.push(EV_SOCK_SEND);
        }
        let mut recv = vec![];
        for (i, c) in self.cons.iter().enumerate() {
            if c.rx.is_some() && c.rx_flag.is_set() {
                recv.push(EV_CONS_RECV + i as u32);
            }
        }
        let script: Vec<u32> = if self.stop_fired.is_some() { vec![] } else { self.next_script_actors().into_iter().map(|a| EV_SCRIPT + a as u32).collect() };
        let mut out = vec![];
        match self.cfg.mode {
            Mode::Eager => {
                out.extend(poll);
                out.extend(sock);
                out.extend(recv);
                out.extend(script);
            }
            Mode::Burst => {
                out.extend(script);
                out.extend(poll);
                out.extend(sock);
                out.extend(recv);
            }
            Mode::SlowRead => {
                out.extend(poll);
                out.extend(script);
                out.extend(sock);
                out.extend(recv);
            }
            Mode::SlowAfterLink => {
                out.extend(poll);
                if !self.sock.linked {
                    out.extend(sock);
                    out.extend(script);
                } else {
                    out.extend(script);
                    out.extend(sock);
                }
                out.extend(recv);
            }
        }
        if out.is_empty() {
            if !self.quiescent_seen {
                self.quiescent_seen = true;
                for c in self.cons.iter_mut() {
                    c.notes_at_quiescence = Some(c.notes.len());
                }
            }
            if self.subject.alive() && self.ticks_done < self.cfg.ticks {
                return vec![EV_TICK];
            }
            if self.subject.alive() && self.stop_fired.is_none() && !self.cfg.no_final_stop {
                return vec![EV_STOP];
            }
            return vec![];
        }
        out
    }

    fn label(&self, code: u32) -> String {
        match code {
            EV_POLL => "poll".into(),
            EV_SOCK_RECV => "sock-recv".into(),
            EV_SOCK_SEND => format!("sock-send({:?})", self.sock.out_queue.front()),
            EV_STOP => "stop".into(),
            EV_TICK => "tick".into(),
            c if (EV_CONS_RECV..EV_SCRIPT).contains(&c) => format!("recv({})", c - EV_CONS_RECV + 1),
            c => {
                let a = (c - EV_SCRIPT) as usize;
                let st = if a == 0 { self.sock.queue.get(self.sock.pos) } else { self.cons[a - 1].queue.get(self.cons[a - 1].pos) };
                format!("script({}, {:?})", a, st)
            }
        }
    }

    async fn fire(&mut self, code: u32) {
        self.step += 1;
        let step = self.step;
        let start = *self.clock_start.get_or_insert_with(tokio::time::Instant::now);
        self.fire_inner(code, step).await;
        let now_ms = tokio::time::Instant::now().duration_since(start).as_millis() as u64;
        while self.times.len() <= self.step as usize {
            self.times.push(now_ms);
        }
    }

    fn rng_seed(cfg: &Cfg) -> u64 {
        cfg.seed
    }

    fn finish(self) -> Outcome {
        let violations = if TIMEOUT_ORACLE.load(std::sync::atomic::Ordering::Relaxed) { timeout_oracle(&self) } else { oracle(&self) };
        let mut h: u64 = 0xcbf29ce484222325;
        let mut feed = |s: &str| {
            for b in s.as_bytes() {
                h ^= *b as u64;
                h = h.wrapping_mul(0x100000001b3);
            }
        };
        for c in &self.cons {
            for (_, n) in &c.notes {
                feed(&format!("{:?};", n));
            }
            feed("|");
        }
        for (_, k, b) in &self.sock.requests {
            feed(&format!("{}:{};", k, b));
        }
        feed(&format!("{}", self.subject.alive()));
        let mut log = self.trace.clone();
        if self.trace_on {
            log.push(format!("lane history: {:?}", self.sock.history));
            log.push(format!("runtime alive at end: {}", self.subject.alive()));
        }
        Outcome { digest: h, violations, log }
    }
}

impl DlWorld {
    async fn fire_inner(&mut self, code: u32, step: u64) {
        match code {
            EV_POLL => {
                if self.subject.poll() {
                    self.completed_step = Some(step);
                    self.log("runtime completed".into());
                }
            }
            EV_TICK => {
                self.ticks_done += 1;
                self.log("tick: the clock advances by the empty timeout".into());
                tokio::time::advance(Duration::from_secs(30) + Duration::from_millis(1)).await;
            }

            EV_STOP => {
                self.stop_fired = Some(step);
                if let Some(s) = self.stop_tx.take() {
                    s.trigger();
                }
                self.att_tx = None;
            }
            EV_SOCK_RECV => {
                let credit = self.cfg.sock_credit;
                let kind = self.cfg.kind;
                let mut reqs = vec![];
                if let Some(rx) = self.sock.rx.as_mut() {
                    match read_now(rx, &self.sock.rx_flag, credit, &mut self.sock.inbuf) {
                        Ok(Some(0)) | Err(_) => {
                            self.sock.rx = None;
                            self.sock.closed = true;
                        }
                        _ => {}
                    }
                    let mut dec = RawRequestMessageDecoder;
                    loop {
                        match dec.decode(&mut self.sock.inbuf) {
                            Ok(Some(m)) => match m.envelope {
                                Operation::Link => reqs.push(("link".to_string(), String::new())),
                                Operation::Sync => reqs.push(("sync".to_string(), String::new())),
                                Operation::Unlink => reqs.push(("unlink".to_string(), String::new())),
                                Operation::Command(b) => reqs.push(("command".to_string(), String::from_utf8_lossy(&b).to_string())),
                            },
                            Ok(None) => break,
                            Err(_) => {
                                self.sock.closed = true;
                                break;
                            }
                        }
                    }
                }
                for (k, b) in reqs {
                    self.log(format!("socket <- {} {:?}", k, b));
                    self.sock.requests.push((step, k.clone(), b.clone()));
                    if self.sock.unlinked_sent.is_some() {
                        continue;
                    }
                    match k.as_str() {
                        "link" => {
                            self.sock.linked = true;
                            self.sock.out_queue.push_back(Out::Linked);
                        }
                        "sync" => {
                            if !self.sock.linked {
                                self.sock.linked = true;
                                self.sock.out_queue.push_back(Out::Linked);
                            }
                            self.sock.out_queue.push_back(Out::SyncReply);
                        }
                        "command" => {
                            if let Some(op) = parse_lop(kind, &b) {
                                self.sock_change(&op);
                            }
                        }
                        _ => {}
                    }
                }
            }
            EV_SOCK_SEND => {
                // expand a sync reply that has reached the head of the queue (state as of now)
                if self.sock.out_queue.front() == Some(&Out::SyncReply) {
                    self.sock.out_queue.pop_front();
                    let mut items = vec![];
                    match self.cfg.kind {
                        Kind::Value => items.push(Out::SyncEvent(LOp::Set(self.sock.state.get(&0).cloned()))),
                        Kind::Map => {
                            for (k, v) in self.sock.state.clone() {
                                items.push(Out::SyncEvent(LOp::Upd(k, v)));
                            }
                        }
                    }
                    items.push(Out::Synced);
                    for it in items.into_iter().rev() {
                        self.sock.out_queue.push_front(it);
                    }
                }
                if let Some(o) = self.sock.out_queue.pop_front() {
                    let path = RelativeAddress::new("/remote", "lane");
                    let body_text;
                    let msg: ResponseMessage<&str, &[u8], &[u8]> = match &o {
                        Out::Linked => ResponseMessage::linked(Uuid::from_u128(77), path),
                        Out::Synced => ResponseMessage::synced(Uuid::from_u128(77), path),
                        Out::Unlinked => ResponseMessage::unlinked(Uuid::from_u128(77), path, None),
                        Out::Change(op) | Out::SyncEvent(op) => {
                            body_text = lop_text(op);
                            ResponseMessage::event(Uuid::from_u128(77), path, body_text.as_bytes())
                        }
                        Out::SyncReply => unreachable!(),
                    };
                    let mut buf = BytesMut::new();
                    RawResponseMessageEncoder.encode(msg, &mut buf).expect("encode");
                    if let Some(tx) = self.sock.tx.as_mut() {
                        match write_some(tx, &buf) {
                            Ok(k) if k == buf.len() => {}
                            _ => {
                                self.sock.tx = None;
                            }
                        }
                    }
                    match &o {
                        Out::Change(LOp::Bad) => {}
                        Out::Change(op) => {
                            apply(&mut self.sock.state, op);
                            let st = self.sock.state.clone();
                            self.sock.history.push((step, st));
                            self.sock.events_sent.push((step, op.clone()));
                        }
                        Out::SyncEvent(op) => self.sock.events_sent.push((step, op.clone())),
                        Out::Unlinked => self.sock.unlinked_sent = Some(step),
                        Out::Synced => {
                            let st = self.sock.state.clone();
                            self.sock.synced_sent.push((step, st));
                        }
                        _ => {}
                    }
                    self.log(format!("socket -> {:?}", o));
                }
            }
            c if (EV_CONS_RECV..EV_SCRIPT).contains(&c) => {
                let i = (c - EV_CONS_RECV) as usize;
                let kind = self.cfg.kind;
                let mut msgs = vec![];
                let con = &mut self.cons[i];
                if let Some(rx) = con.rx.as_mut() {
                    let before = con.inbuf.len();
                    let res = read_now(rx, &con.rx_flag, 0, &mut con.inbuf);
                    if self.trace_on {
                        msgs.push(format!("consumer {} raw +{:?}", i + 1, &con.inbuf[before.min(con.inbuf.len())..]));
                    }
                    match res {
                        Ok(Some(0)) | Err(_) => {
                            con.rx = None;
                            con.closed_at = Some(step);
                        }
                        _ => {}
                    }
                    loop {
                        // The harness frames notifications itself (tag, and for events the 8 byte
                        // length) and hands only complete frames to the repository's decoder: the
                        // incremental behaviour of that decoder is C10's subject, not C07's.
                        let complete = match con.inbuf.first() {
                            None => None,
                            Some(3) => {
                                if con.inbuf.len() >= 9 {
                                    let len = u64::from_be_bytes(con.inbuf[1..9].try_into().unwrap()) as usize;
                                    if con.inbuf.len() >= 9 + len { Some(9 + len) } else { None }
                                } else {
                                    None
                                }
                            }
                            Some(_) => Some(1),
                        };
                        let Some(flen) = complete else { break };
                        let mut frame = con.inbuf.split_to(flen);
                        let item: Result<Option<Note>, String> = match kind {
                            Kind::Value => {
                                con.vdec = Default::default();
                                con.vdec.decode(&mut frame).map_err(|e| e.to_string()).map(|o| {
                                    o.map(|n| match n {
                                        DownlinkNotification::Linked => Note::Linked,
                                        DownlinkNotification::Synced => Note::Synced,
                                        DownlinkNotification::Unlinked => Note::Unlinked,
                                        DownlinkNotification::Event { body } => Note::Event(LOp::Set(body)),
                                    })
                                })
                            }
                            Kind::Map => {
                                con.mdec = Default::default();
                                con.mdec.decode(&mut frame).map_err(|e| e.to_string()).map(|o| {
                                    o.and_then(|n| match n {
                                        DownlinkNotification::Linked => Some(Note::Linked),
                                        DownlinkNotification::Synced => Some(Note::Synced),
                                        DownlinkNotification::Unlinked => Some(Note::Unlinked),
                                        DownlinkNotification::Event { body } => match body {
                                            MapMessage::Update { key, value } => Some(Note::Event(LOp::Upd(key, value))),
                                            MapMessage::Remove { key } => Some(Note::Event(LOp::Rem(key))),
                                            MapMessage::Clear => Some(Note::Event(LOp::Clr)),
                                            _ => None,
                                        },
                                    })
                                })
                            }
                        };
                        match item {
                            Ok(Some(n)) => {
                                msgs.push(format!("consumer {} <- {:?}", i + 1, n));
                                con.notes.push((step, n));
                            }
                            Ok(None) => break,
                            Err(e) => {
                                con.decode_error = Some(e);
                                break;
                            }
                        }
                    }
                }
                for m in msgs {
                    self.log(m);
                }
            }
            c => {
                let a = (c - EV_SCRIPT) as usize;
                if a == 0 {
                    let st = self.sock.queue[self.sock.pos].clone();
                    self.sock.pos += 1;
                    match st {
                        Step::Lane(op) => {
                            self.sock_change(&op);
                            self.log(format!("lane changes: {:?}", op));
                        }
                        Step::Unlinked => {
                            if self.sock.linked {
                                self.sock.out_queue.push_back(Out::Unlinked);
                            }
                        }
                        Step::Wait(n) => {
                            self.log(format!("clock advances by {}/10 of the empty timeout", n));
                            tokio::time::advance(Duration::from_secs(3) * n + Duration::from_millis(1)).await;
                        }
                        _ => {}
                    }
                } else {
                    let kind = self.cfg.kind;
                    let dl_buf = self.cfg.dl_buf;
                    let con = &mut self.cons[a - 1];
                    let st = con.queue[con.pos].clone();
                    con.pos += 1;
                    match st {
                        Step::Attach(sync, keep) => {
                            let (tx_in, rx_in) = byte_channel(NonZeroUsize::new(dl_buf).unwrap());
                            let (tx_out, rx_out) = byte_channel(NonZeroUsize::new(1 << 14).unwrap());
                            let mut opts = DownlinkOptions::empty();
                            if sync {
                                opts |= DownlinkOptions::SYNC;
                            }
                            if keep {
                                opts |= DownlinkOptions::KEEP_LINKED;
                            }
                            if let Some(att) = &self.att_tx {
                                let _ = att.try_send(AttachAction::new((tx_in, rx_out), opts));
                            }
                            con.tx = Some(tx_out);
                            con.rx = Some(rx_in);
                            con.attach = Some((step, sync, keep));
                        }
                        Step::Cmd(op) => {
                            let mut buf = BytesMut::new();
                            match (kind, &op) {
                                (Kind::Value, LOp::Set(v)) => {
                                    DownlinkOperationEncoder::default().encode(DownlinkOperation::new(*v), &mut buf).expect("encode");
                                }
                                (Kind::Map, LOp::Upd(k, v)) => {
                                    MapOperationEncoder.encode(MapOperation::Update { key: *k, value: *v }, &mut buf).expect("encode");
                                }
                                (Kind::Map, LOp::Rem(k)) => {
                                    MapOperationEncoder.encode(MapOperation::<i32, i32>::Remove { key: *k }, &mut buf).expect("encode");
                                }
                                (Kind::Map, LOp::Clr) => {
                                    MapOperationEncoder.encode(MapOperation::<i32, i32>::Clear, &mut buf).expect("encode");
                                }
                                (_, LOp::Bad) => {
                                    // bytes that are no operation frame at all
                                    buf.extend_from_slice(&[0xff; 16]);
                                }
                                _ => {}
                            }
                            if let Some(tx) = con.tx.as_mut() {
                                match write_some(tx, &buf) {
                                    Ok(k) if k == buf.len() => {}
                                    other => {
                                        con.decode_error = Some(format!("harness could not write a command: {:?}", other));
                                    }
                                }
                            }
                            con.sent.push((step, op.clone()));
                        }
                        Step::Drop => {
                            con.tx = None;
                            con.rx = None;
                            con.dropped_at = Some(step);
                        }
                        Step::DropTx => {
                            con.tx = None;
                            if con.rx.is_none() {
                                con.dropped_at = Some(step);
                            }
                        }
                        Step::DropRx => {
                            con.rx = None;
                            if con.tx.is_none() {
                                con.dropped_at = Some(step);
                            }
                        }
                        Step::Wait(n) => {
                            tokio::time::advance(Duration::from_secs(3) * n + Duration::from_millis(1)).await;
                        }
                        _ => {}
                    }
                    self.log(format!("consumer {}: {:?}", a, self.cons[a - 1].queue[self.cons[a - 1].pos - 1]));
                }
            }
        }
    }
}

// ------------------------------------------------------------------------------------------
// oracle
// ------------------------------------------------------------------------------------------

fn key_of(op: &LOp) -> Option<i32> {
    match op {
        LOp::Upd(k, _) | LOp::Rem(k) => Some(*k),
        _ => None,
    }
}

fn fold_notes<'a>(it: impl Iterator<Item = &'a Note>) -> LaneState {
    let mut s = LaneState::new();
    for n in it {
        if let Note::Event(op) = n {
            apply(&mut s, op);
        }
    }
    s
}

/// All final lane states reachable by interleaving the consumers' command streams (per consumer
/// order preserved) on top of `base`.
fn possible_finals(base: &LaneState, streams: &[Vec<LOp>]) -> BTreeSet<LaneState> {
    fn rec(streams: &[Vec<LOp>], pos: &mut Vec<usize>, cur: LaneState, out: &mut BTreeSet<LaneState>) {
        let mut done = true;
        for i in 0..streams.len() {
            if pos[i] < streams[i].len() {
                done = false;
                let mut next = cur.clone();
                apply(&mut next, &streams[i][pos[i]]);
                pos[i] += 1;
                rec(streams, pos, next, out);
                pos[i] -= 1;
            }
        }
        if done {
            out.insert(cur);
        }
    }
    let mut out = BTreeSet::new();
    rec(streams, &mut vec![0; streams.len()], base.clone(), &mut out);
    out
}

fn oracle(w: &DlWorld) -> Vec<(String, String)> {
    let mut out: Vec<(String, String)> = vec![];
    let mut add = |sig: String, expl: String| {
        if !out.iter().any(|(s, _)| *s == sig) {
            out.push((sig, expl));
        }
    };
    let kind = w.cfg.kind;
    let k = if kind == Kind::Value { "value" } else { "map" };
    let quiescent = w.quiescent_seen;
    let events: Vec<&LOp> = w.sock.events_sent.iter().map(|(_, e)| e).collect();
    for (ci, c) in w.cons.iter().enumerate() {
        let ci = ci + 1;
        if let Some(e) = &c.decode_error {
            add(format!("dl({}): consumer received an undecodable notification", k), format!("consumer {}: {}", ci, e));
            continue;
        }
        let Some((att_step, want_sync, _keep)) = c.attach else { continue };
        // --- shape: linked first, nothing after unlinked
        let mut seen_linked = false;
        let mut seen_unlinked = false;
        let mut synced_at: Option<(usize, u64)> = None;
        for (i, (s, n)) in c.notes.iter().enumerate() {
            if seen_unlinked {
                add(format!("dl({}): notification after unlinked", k), format!("consumer {}: {:?} at step {}", ci, n, s));
            }
            match n {
                Note::Linked => {
                    if seen_linked {
                        add(format!("dl({}): linked delivered twice", k), format!("consumer {}", ci));
                    }
                    seen_linked = true;
                }
                Note::Synced => {
                    if !seen_linked {
                        add(format!("dl({}): synced before linked", k), format!("consumer {}", ci));
                    }
                    if synced_at.is_some() {
                        add(format!("dl({}): synced delivered twice", k), format!("consumer {}", ci));
                    }
                    synced_at = Some((i, *s));
                }
                Note::Event(_) => {
                    if !seen_linked {
                        add(format!("dl({}): event before linked", k), format!("consumer {}", ci));
                    }
                }
                Note::Unlinked => seen_unlinked = true,
            }
        }
        // --- state at synced is a state of the remote lane between attach and synced
        if let Some((idx, s_step)) = synced_at {
            let have = fold_notes(c.notes[..idx].iter().map(|(_, n)| n));
            let any_event_from_lane = !w.sock.events_sent.is_empty();
            let mut window: Vec<&LaneState> = vec![];
            let mut before: Option<&LaneState> = None;
            for (hs, st) in &w.sock.history {
                if *hs <= att_step {
                    before = Some(st);
                } else if *hs <= s_step {
                    window.push(st);
                }
            }
            if let Some(b) = before {
                window.insert(0, b);
            }
            if any_event_from_lane && !window.iter().any(|st| **st == have) {
                // classified cause: the state is the one announced by a `synced` that the lane wrote
                // before this consumer attached (a synced answering somebody else's earlier @sync)
                let stale = w.sock.synced_sent.iter().any(|(s, st)| *s < att_step && *st == have);
                add(
                    format!(
                        "dl({}): state at synced is not a state the remote lane was in between attach and synced ({}){}",
                        k,
                        if want_sync { "consumer asked for sync" } else { "consumer did not ask for sync" },
                        if stale { " [the state of a synced written before it attached]" } else { "" }
                    ),
                    format!("consumer {} (attached at {}, synced at {}): holds {:?}; lane states in that window {:?}", ci, att_step, s_step, have, window),
                );
            }
        }
        // --- the events a consumer receives are a contiguous run of what the lane sent
        let got: Vec<&LOp> = c.notes.iter().filter_map(|(_, n)| if let Note::Event(op) = n { Some(op) } else { None }).collect();
        if !got.is_empty() {
            // find a start index a such that events[a..a+got.len()] == got; for value downlinks the
            // first delivered value may be the retained current value (the last event before the
            // consumer's sync completed), which is still an element of `events`
            let found = (0..=events.len().saturating_sub(got.len())).any(|a| events.len() >= got.len() && events[a..a + got.len()] == got[..]);
            if !found {
                add(
                    format!("dl({}): events delivered to a consumer are not a contiguous in-order run of the lane's events", k),
                    format!("consumer {}: received {:?}; lane sent {:?}", ci, got, events),
                );
            }
        }
        // --- at quiescence nothing is missing at the end
        let q0 = c.notes_at_quiescence.unwrap_or(c.notes.len());
        let unlinked_by_quiescence = c.notes.iter().take(q0).any(|(_, n)| *n == Note::Unlinked);
        let synced_by_quiescence = c.notes.iter().take(q0).any(|(_, n)| *n == Note::Synced);
        if quiescent && c.dropped_at.is_none() && seen_linked && !unlinked_by_quiescence && w.sock.unlinked_sent.is_none() {
            let q = c.notes_at_quiescence.unwrap_or(c.notes.len());
            let got_q: Vec<&LOp> = c.notes.iter().take(q).filter_map(|(_, n)| if let Note::Event(op) = n { Some(op) } else { None }).collect();
            let linked_step = c.notes.iter().find(|(_, n)| *n == Note::Linked).map(|(s, _)| *s).unwrap_or(0);
            // events the lane sent after this consumer had read `linked`
            let later: Vec<&LOp> = w.sock.events_sent.iter().filter(|(s, _)| *s > linked_step).map(|(_, e)| e).collect();
            // (a consumer still waiting for its synced is owed no events yet: that case is reported
            // by the never-synced law below, not here)
            let waiting_for_synced = want_sync && !synced_by_quiescence;
            if let Some(last) = later.last().filter(|_| !waiting_for_synced) {
                if got_q.last() != Some(last) {
                    add(
                        format!("dl({}): consumer missed the lane's latest event at quiescence ({})", k, if want_sync { "asked for sync" } else { "did not ask for sync" }),
                        format!("consumer {} (linked read at {}): received {:?}; lane sent {:?}", ci, linked_step, got_q, events),
                    );
                }
            }
            if want_sync && !synced_by_quiescence && w.sock.out_queue.is_empty() {
                // classified cause: did any @sync reach the lane after this consumer attached?
                let sync_after_attach = w.sock.requests.iter().any(|(s, kk, _)| kk == "sync" && *s > att_step);
                if sync_after_attach {
                    add(format!("dl({}): consumer that asked for sync never received synced", k), format!("consumer {}: a @sync reached the lane after it attached (step {}) and was answered", ci, att_step));
                } else if w.sock.requests.iter().any(|(_, kk, _)| kk == "link" || kk == "sync") {
                    add(format!("dl({}): consumer that asked for sync never received synced (no @sync reached the lane after it attached)", k), format!("consumer {} attached at step {}", ci, att_step));
                }
            }
        }
        // --- a runtime that has ended (for whatever reason: stop, unlinked, a bad frame it aborts on)
        // has told every consumer it had linked that the link is gone
        if !w.subject.alive() && c.dropped_at.is_none() && c.rx.is_some() && seen_linked && !seen_unlinked {
            add(format!("dl({}): the runtime ended but a linked consumer was never told unlinked", k), format!("consumer {}: notes {:?}", ci, c.notes));
        }
        if let Some(us) = w.sock.unlinked_sent {
            if c.dropped_at.is_none() && quiescent && att_step < us && !seen_unlinked && !w.subject.alive() {
                add(format!("dl({}): consumer not told unlinked when the link closed", k), format!("consumer {}", ci));
            }
        }
    }
    // --- commands as the socket received them
    let received: Vec<LOp> = w.sock.requests.iter().filter(|(_, kk, _)| kk == "command").filter_map(|(_, _, b)| parse_lop(kind, b)).collect();
    let n_cmd_frames = w.sock.requests.iter().filter(|(_, kk, _)| kk == "command").count();
    if received.len() != n_cmd_frames {
        add(format!("dl({}): command frame with a body no consumer wrote", k), format!("requests {:?}", w.sock.requests));
    }
    let streams: Vec<Vec<LOp>> = w.cons.iter().map(|c| c.sent.iter().map(|(_, op)| op.clone()).collect()).collect();
    // per consumer: no duplicates; order preserved where it matters (value: always; map: per key
    // and across a clear). Commands are distinct within a run.
    for (ci, s) in streams.iter().enumerate() {
        let mine: Vec<&LOp> = received.iter().filter(|op| s.contains(op)).collect();
        let pos = |op: &LOp| s.iter().position(|x| x == op).unwrap();
        let mut ok = true;
        let mut dup = false;
        for i in 0..mine.len() {
            for j in (i + 1)..mine.len() {
                if mine[i] == mine[j] {
                    dup = true;
                }
                let ordered_matters = match (kind, mine[i], mine[j]) {
                    (Kind::Value, _, _) => true,
                    (_, LOp::Clr, _) | (_, _, LOp::Clr) => true,
                    (_, a, b) => key_of(a) == key_of(b),
                };
                if ordered_matters && pos(mine[i]) > pos(mine[j]) {
                    ok = false;
                }
            }
        }
        if dup {
            add(format!("dl({}): a consumer's command reached the lane twice", k), format!("consumer {} wrote {:?}; lane received {:?}", ci + 1, s, received));
        }
        if !ok {
            add(
                format!("dl({}): one consumer's commands reached the lane out of order", k),
                format!("consumer {} wrote {:?}; lane received {:?}", ci + 1, s, received),
            );
        }
    }
    if quiescent && w.cons.iter().all(|c| c.dropped_at.is_none()) && w.sock.unlinked_sent.is_none() && streams.iter().any(|s| !s.is_empty()) {
        // the lane ends in the same state as if every command had been sent in some interleaving
        let external: bool = w.sock.queue.iter().any(|s| matches!(s, Step::Lane(_)));
        if !external {
            let finals = possible_finals(&LaneState::new(), &streams);
            let got = {
                let mut s = LaneState::new();
                for op in &received {
                    apply(&mut s, op);
                }
                s
            };
            if !finals.contains(&got) {
                let last_is_empty = matches!(streams.iter().flat_map(|s| s.last()).next(), Some(LOp::Set(None)));
                add(
                    format!("dl({}): the lane does not end in a state reachable by sending every command{}", k, if last_is_empty { " (an empty-bodied command was lost)" } else { "" }),
                    format!("commands {:?}; lane received {:?} -> {:?}; reachable finals {:?}", streams, received, got, finals),
                );
            }
        }
    }
    out
}

// ------------------------------------------------------------------------------------------
// scripts / driver
// ------------------------------------------------------------------------------------------

fn interleavings(scripts: &[Vec<Step>]) -> Vec<Vec<(usize, Step)>> {
    fn rec(scripts: &[Vec<Step>], pos: &mut Vec<usize>, cur: &mut Vec<(usize, Step)>, out: &mut Vec<Vec<(usize, Step)>>) {
        let mut done = true;
        for i in 0..scripts.len() {
            if pos[i] < scripts[i].len() {
                done = false;
                cur.push((i, scripts[i][pos[i]].clone()));
                pos[i] += 1;
                rec(scripts, pos, cur, out);
                pos[i] -= 1;
                cur.pop();
            }
        }
        if done {
            out.push(cur.clone());
        }
    }
    let mut out = vec![];
    rec(scripts, &mut vec![0; scripts.len()], &mut vec![], &mut out);
    out
}

fn scripts(kind: Kind, quick: bool) -> Vec<(Vec<(usize, Step)>, usize)> {
    let mut out = vec![];
    let (l1, l2, l3): (LOp, LOp, LOp) = match kind {
        Kind::Value => (LOp::Set(Some(101)), LOp::Set(Some(10222222)), LOp::Set(Some(3))),
        Kind::Map => (LOp::Upd(1, 101), LOp::Upd(2, 10222222), LOp::Rem(1)),
    };
    let (c1, c2, c3, c4): (LOp, LOp, LOp, LOp) = match kind {
        Kind::Value => (LOp::Set(Some(1)), LOp::Set(Some(22222222)), LOp::Set(None), LOp::Set(Some(4))),
        Kind::Map => (LOp::Upd(1, 1), LOp::Upd(2, 22222222), LOp::Rem(1), LOp::Clr),
    };
    let d1: LOp = match kind {
        Kind::Value => LOp::Set(Some(11)),
        Kind::Map => LOp::Upd(1, 11),
    };
    let d2: LOp = match kind {
        Kind::Value => LOp::Set(Some(12)),
        Kind::Map => LOp::Upd(3, 12),
    };
    let lane = vec![Step::Lane(l1.clone()), Step::Lane(l2.clone()), Step::Lane(l3.clone())];
    // one consumer: attach, commands
    for (sync, keep) in [(true, true), (true, false), (false, true)] {
        out.push((interleavings(&[vec![], vec![Step::Attach(sync, keep), Step::Cmd(c1.clone()), Step::Cmd(c2.clone()), Step::Cmd(c3.clone())]]).remove(0), 1));
    }
    out.push((interleavings(&[vec![], vec![Step::Attach(true, true), Step::Cmd(c1.clone()), Step::Cmd(c4.clone()), Step::Cmd(c3.clone())]]).remove(0), 1));
    // one consumer attaching at every position of a lane event stream
    for (sync, keep) in [(true, true), (false, true)] {
        for s in interleavings(&[lane.clone(), vec![Step::Attach(sync, keep)]]) {
            out.push((s, 1));
        }
    }
    // early consumer + late joiner at every position of the stream
    let every = if quick { 3 } else { 1 };
    for (sync2, keep2) in [(true, true), (false, false)] {
        for (i, s) in interleavings(&[lane.clone(), vec![Step::Attach(true, true)], vec![Step::Attach(sync2, keep2)]]).into_iter().enumerate() {
            if i % every == 0 {
                out.push((s, 2));
            }
        }
    }
    // two writers
    for (i, s) in interleavings(&[vec![], vec![Step::Attach(true, true), Step::Cmd(c1.clone()), Step::Cmd(c2.clone())], vec![Step::Attach(false, true), Step::Cmd(d1.clone()), Step::Cmd(d2.clone())]]).into_iter().enumerate() {
        if i % (every * 2) == 0 {
            out.push((s, 2));
        }
    }
    // a consumer that drops, the link closing
    out.push((vec![(1, Step::Attach(true, true)), (0, Step::Lane(l1.clone())), (2, Step::Attach(true, true)), (1, Step::Drop), (0, Step::Lane(l2.clone())), (0, Step::Unlinked)], 2));
    out.push((vec![(1, Step::Attach(true, false)), (0, Step::Lane(l1.clone())), (0, Step::Unlinked), (0, Step::Lane(l2.clone()))], 1));
    out
}

/// Every single-consumer command stream of length `n` over update(1), update(2), update(3), remove(1),
/// remove(2) and clear (each remove and the clear at most once, values distinct per position): the
/// map write task's relief queue (`MapOperationQueue`) is driven through every short history.
fn map_cmd_streams(n: usize) -> Vec<Vec<(usize, Step)>> {
    fn rec(n: usize, cur: &mut Vec<LOp>, out: &mut Vec<Vec<LOp>>) {
        if cur.len() == n {
            out.push(cur.clone());
            return;
        }
        let p = cur.len() as i32 + 1;
        let mut alpha = vec![LOp::Upd(1, 10 * p + 1), LOp::Upd(2, 10 * p + 2), LOp::Upd(3, 10 * p + 3)];
        for once in [LOp::Rem(1), LOp::Rem(2), LOp::Clr] {
            if !cur.contains(&once) {
                alpha.push(once);
            }
        }
        for a in alpha {
            cur.push(a);
            rec(n, cur, out);
            cur.pop();
        }
    }
    let mut streams = vec![];
    rec(n, &mut vec![], &mut streams);
    streams
        .into_iter()
        .filter(|s| s.contains(&LOp::Clr) || s.iter().any(|o| matches!(o, LOp::Rem(_))))
        .map(|s| std::iter::once((1usize, Step::Attach(false, true))).chain(s.into_iter().map(|o| (1usize, Step::Cmd(o)))).collect())
        .collect()
}

struct GridResult {
    total: ExploreStats,
    skipped: usize,
    n: usize,
    samples: Vec<serde_json::Value>,
}

fn run_cfgs(ctx: &Ctx, name: &str, cfgs: Vec<Cfg>, bound: u32, max_exec: u64, wall_cap_s: f64) {
    let t0 = Instant::now();
    let results: Vec<Option<ExploreStats>> = match vcommon::sched::grid_explore::<DlWorld>(name, &cfgs, bound, max_exec, wall_cap_s) {
        vcommon::sched::GridOutcome::NotMine => return,
        vcommon::sched::GridOutcome::Done(r) => r,
    };
    let mut g = GridResult { total: ExploreStats::default(), skipped: 0, n: cfgs.len(), samples: vec![] };
    for (cfg, r) in cfgs.iter().zip(results) {
        match r {
            None => g.skipped += 1,
            Some(st) => {
                if !st.machinery_errors.is_empty() {
                    eprintln!("machinery errors: {:?}", &st.machinery_errors[..st.machinery_errors.len().min(3)]);
                    vcommon::machinery_failure("schedule explorer: nondeterminism or crash");
                }
                for (sig, expl, choices) in &st.violations {
                    ctx.violation(name, sig, json!({"cfg": serde_json::to_value(cfg).unwrap(), "choices": choices, "explanation": expl, "what": expl}));
                }
                if g.samples.len() < 3 && st.executions > 1 {
                    g.samples.push(json!({"kind": format!("{:?}", cfg.kind), "script": format!("{:?}", cfg.script), "remote_buf": cfg.remote_buf, "executions": st.executions, "distinct_outcomes": st.distinct_digests}));
                }
                g.total.executions += st.executions;
                g.total.steps += st.steps;
                g.total.distinct_digests += st.distinct_digests;
                g.total.nontrivial += st.nontrivial;
                g.total.capped |= st.capped;
                g.total.max_len = g.total.max_len.max(st.max_len);
            }
        }
    }
    ctx.add_leg(Leg {
        name: name.into(),
        engine: "E1-sched".into(),
        states: g.total.distinct_digests,
        transitions: g.total.steps,
        evaluations: g.total.executions,
        distinct_nontrivial: g.total.nontrivial,
        rule: "all schedules with at most `bound` deviations from the canonical schedule of every configuration; non-trivial = executions with >= 1 deviation whose observations differ from the canonical execution".into(),
        samples: g.samples,
        exhaustive: g.skipped == 0 && !g.total.capped,
        bounds: json!({"configurations": g.n, "skipped_by_wall_cap": g.skipped, "deviation_bound": bound, "max_exec_per_cfg": max_exec, "longest_execution_steps": g.total.max_len}),
        wall_s: t0.elapsed().as_secs_f64(),
    });
}

pub fn run_main() {
    let ctx = Ctx::from_env("C07");
    if let Some(r) = ctx.replay_request() {
        if std::env::var("PROBE_LOG").is_ok() {
            let _ = tracing_subscriber::fmt().with_max_level(tracing::Level::TRACE).without_time().with_target(false).try_init();
        }
        if r["leg"].as_str().unwrap_or("").starts_with("mapq-") {
            asys::mapq::replay(&ctx, &r);
            ctx.finish("model_checking", "replay");
        }
        let d = &r["detail"];
        let cfg: Cfg = serde_json::from_value(d["cfg"].clone()).unwrap_or_else(|e| vcommon::machinery_failure(&format!("bad cfg: {}", e)));
        let choices: Vec<u8> = d["choices"].as_array().map(|a| a.iter().map(|x| x.as_u64().unwrap() as u8).collect()).unwrap_or_default();
        let sig = r["signature"].as_str().unwrap_or("");
        let mut hits = 0;
        for round in 0..2 {
            let rec = run_one::<DlWorld>(&cfg, &choices, true).unwrap_or_else(|e| vcommon::machinery_failure(&e));
            if round == 0 {
                println!("schedule: {}", rec.labels.join(" "));
                for l in &rec.outcome.log {
                    println!("{}", l);
                }
            }
            if rec.outcome.violations.iter().any(|(s, _)| s == sig) {
                hits += 1;
            }
        }
        if hits == 1 {
            vcommon::machinery_failure("nondeterminism in replay");
        }
        if hits == 2 {
            println!("REPRODUCED: {}", sig);
            ctx.violation(r["leg"].as_str().unwrap_or("replay"), sig, d.clone());
        }
        ctx.finish("model_checking", "replay");
    }
    let quick = ctx.quick();
    for kind in [Kind::Value, Kind::Map] {
        let sc = scripts(kind, quick);
        let mut cfgs = vec![];
        for (script, consumers) in &sc {
            for (remote_buf, dl_buf) in [(16usize, 16usize), (4096, 4096), (16, 4096)] {
                for budget in [2usize, 64] {
                    for mode in [Mode::Eager, Mode::Burst, Mode::SlowRead, Mode::SlowAfterLink] {
                        if quick && remote_buf == 16 && dl_buf == 4096 && mode != Mode::Eager {
                            continue;
                        }
                        if mode == Mode::SlowAfterLink && remote_buf != 16 {
                            continue;
                        }
                        for seed in if remote_buf == 16 && dl_buf == 16 && !quick { vec![0u64, 1, 2] } else if remote_buf == 16 && dl_buf == 16 && budget == 64 { vec![0u64, 1] } else { vec![0u64] } {
                            cfgs.push(Cfg { kind, script: script.clone(), consumers: *consumers, remote_buf, dl_buf, sock_credit: if remote_buf == 16 { 5 } else { 0 }, budget, mode, ticks: 0, no_final_stop: false, seed, ignore_bad: false });
                        }
                    }
                }
            }
        }
        let name = format!("dl-{}-grid-d1", if kind == Kind::Value { "value" } else { "map" });
        run_cfgs(&ctx, &name, cfgs, 1, 20_000, if quick { 14.0 } else { 900.0 });
        if kind == Kind::Map {
            let mut cfgs = vec![];
            for n in if quick { vec![4usize] } else { vec![4usize, 5] } {
                for script in map_cmd_streams(n) {
                    for mode in [Mode::SlowAfterLink, Mode::Eager, Mode::SlowRead] {
                        if quick && mode == Mode::SlowRead {
                            continue;
                        }
                        cfgs.push(Cfg { kind, script: script.clone(), consumers: 1, remote_buf: 16, dl_buf: 4096, sock_credit: 5, budget: 64, mode, ticks: 0, no_final_stop: false, seed: 0, ignore_bad: false });
                    }
                }
            }
            run_cfgs(&ctx, "dl-map-cmdstreams-d1", cfgs, 1, 20_000, if quick { 12.0 } else { 900.0 });
        }
        let core: Vec<Cfg> = sc
            .iter()
            .filter(|(s, _)| s.len() <= 5)
            .flat_map(|(script, consumers)| {
                [2usize, 64].into_iter().map(move |budget| Cfg { kind, script: script.clone(), consumers: *consumers, remote_buf: 16, dl_buf: 16, sock_credit: 5, budget, mode: Mode::Eager, ticks: 0, no_final_stop: false, seed: 0, ignore_bad: false })
            })
            .collect();
        let name = format!("dl-{}-core-d2", if kind == Kind::Value { "value" } else { "map" });
        run_cfgs(&ctx, &name, core, if quick { 2 } else { 3 }, if quick { 20_000 } else { 2_000_000 }, if quick { 10.0 } else { 900.0 });
    }
    // a remote that sends an event the map runtime cannot interpret, with the strategy that ignores
    // bad frames: the consumers see exactly the lane's (good) events, in order
    {
        let att = |sync: bool| Step::Attach(sync, true);
        let bad = || (0usize, Step::Lane(LOp::Bad));
        let scripts: Vec<(Vec<(usize, Step)>, usize)> = vec![
            (vec![(1, att(true)), (0, Step::Lane(LOp::Upd(1, 101))), bad(), (0, Step::Lane(LOp::Upd(2, 102)))], 1),
            (vec![(1, att(false)), bad(), (0, Step::Lane(LOp::Upd(1, 101))), (2, att(true)), bad(), (0, Step::Lane(LOp::Rem(1)))], 2),
            (vec![(1, att(true)), (0, Step::Lane(LOp::Upd(1, 101))), bad()], 1),
            (vec![(0, Step::Lane(LOp::Upd(1, 101))), bad(), (1, att(true)), (0, Step::Lane(LOp::Clr)), bad(), (1, Step::Cmd(LOp::Upd(3, 1)))], 1),
        ];
        let mut cfgs = vec![];
        for (script, consumers) in &scripts {
            for (remote_buf, dl_buf) in [(16usize, 16usize), (4096, 4096)] {
                for mode in [Mode::Eager, Mode::Burst, Mode::SlowRead] {
                    cfgs.push(Cfg { kind: Kind::Map, script: script.clone(), consumers: *consumers, remote_buf, dl_buf, sock_credit: if remote_buf == 16 { 5 } else { 0 }, budget: 64, mode, ticks: 0, no_final_stop: false, seed: 0, ignore_bad: true });
                }
            }
        }
        // a consumer that writes garbage on its command channel harms nobody but itself
        let garbage: Vec<(usize, Step)> = vec![(1, att(true)), (2, att(false)), (1, Step::Cmd(LOp::Bad)), (2, Step::Cmd(LOp::Upd(3, 1))), (0, Step::Lane(LOp::Upd(1, 101))), (2, Step::Cmd(LOp::Upd(4, 2)))];
        for (remote_buf, dl_buf) in [(16usize, 16usize), (4096, 4096)] {
            for mode in [Mode::Eager, Mode::SlowRead] {
                cfgs.push(Cfg { kind: Kind::Map, script: garbage.clone(), consumers: 2, remote_buf, dl_buf, sock_credit: if remote_buf == 16 { 5 } else { 0 }, budget: 64, mode, ticks: 0, no_final_stop: false, seed: 0, ignore_bad: true });
            }
        }
        // ... and with the strategy that aborts: the runtime ends, and says so to its consumers
        for (script, consumers) in scripts.iter().take(2) {
            for mode in [Mode::Eager, Mode::SlowRead] {
                cfgs.push(Cfg { kind: Kind::Map, script: script.clone(), consumers: *consumers, remote_buf: 4096, dl_buf: 4096, sock_credit: 0, budget: 64, mode, ticks: 0, no_final_stop: false, seed: 0, ignore_bad: false });
            }
        }
        run_cfgs(&ctx, "dl-map-bad-frames-d1", cfgs, 1, 20_000, if quick { 6.0 } else { 300.0 });
    }
    asys::mapq::run_runtime(&ctx);
    ctx.assume("the socket is a reactive model of a well-behaved lane: it answers each @link/@sync it reads and applies each @command, at a schedule-chosen pace");
    ctx.assume("the start branch of unbiased tokio select!s is fixed by the runtime RNG seed within one execution; two seeds (three in the thorough tier) are configurations of the tight-buffer grid; schedule switches only where the runtime future returns Pending (plus coop-budget yields)");
    ctx.assume("commands written by the consumers are pairwise distinct so that a received frame identifies its writer");
    ctx.finish(
        "model_checking",
        "deviation-bounded exhaustive schedule exploration of the real downlink runtime future with a reactive lane model and 1-2 consumers attaching at every position",
    );
}

// ------------------------------------------------------------------------------------------
// C17 (system level): how the downlink runtime uses the two-party stop coordinator
// ------------------------------------------------------------------------------------------

static TIMEOUT_ORACLE: std::sync::atomic::AtomicBool = std::sync::atomic::AtomicBool::new(false);

/// Oracle for runs without an external stop in which the clock is moved by `Step::Wait` (only
/// while the runtime has nothing to do) and by full ticks at quiescence.
fn timeout_oracle(w: &DlWorld) -> Vec<(String, String)> {
    let mut out: Vec<(String, String)> = vec![];
    let mut add = |sig: String, expl: String| {
        if !out.iter().any(|(s, _)| *s == sig) {
            out.push((sig, expl));
        }
    };
    // (`sock.closed` is not an external cause here: the scripts of this leg never close the socket, so
    // the flag only says that the harness saw the end of the runtime's own output - after it stopped)
    if w.stop_fired.is_some() || w.sock.unlinked_sent.is_some() {
        vcommon::sched::oracle_note(if w.stop_fired.is_some() { "timeout laws skipped: external stop" } else { "timeout laws skipped: the script sent unlinked" });
        return out;
    }
    vcommon::sched::oracle_note(if w.completed_step.is_some() { "timeout laws judged: the runtime stopped" } else { "timeout laws judged: the runtime kept running" });
    let timeout_ms = 30_000u64;
    let t = |step: u64| -> u64 { w.times.get(step as usize).or(w.times.last()).copied().unwrap_or(0) };
    if let Some(c) = w.completed_step {
        for (ci, con) in w.cons.iter().enumerate() {
            let Some((a, _, _)) = con.attach else { continue };
            if a >= c {
                continue;
            }
            // (D1) not while a consumer that attached at an earlier instant is still there
            let alive_at_stop = con.dropped_at.map(|d| d > c).unwrap_or(true);
            if alive_at_stop && t(c) > t(a) {
                add(
                    "dl: runtime stopped for inactivity while a consumer was attached".into(),
                    format!("consumer {} attached at step {} (t={} ms), never dropped before the runtime completed at step {} (t={} ms)", ci + 1, a, t(a), c, t(c)),
                );
            }
            // (D2) not less than the empty timeout after a consumer came or went
            for (what, s) in [("attached", Some(a)), ("left", con.dropped_at.filter(|d| *d < c))] {
                if let Some(s) = s {
                    let dt = t(c).saturating_sub(t(s));
                    if dt > 0 && dt < timeout_ms {
                        add(
                            "dl: runtime stopped for inactivity less than the empty timeout after a consumer attached or left".into(),
                            format!("consumer {} {} at step {} (t={} ms); the runtime completed at step {} (t={} ms)", ci + 1, what, s, t(s), c, t(c)),
                        );
                    }
                }
            }
        }
    }
    // (D3) nobody attached for two full timeouts: the runtime has stopped
    let anybody = w.cons.iter().any(|c| c.attach.is_some() && c.dropped_at.is_none());
    // (a liveness expectation that goes beyond the letter of C17: only reported on request)
    if std::env::var("VERIF_LIVENESS").is_ok() && w.ticks_done >= 2 && w.subject.alive() && !anybody {
        add("dl: runtime still running after two empty timeouts without any consumer".into(), format!("ticks {} steps {}", w.ticks_done, w.step));
    }
    // (D4) the runtime is gone: no consumer is left waiting on an open channel
    if !w.subject.alive() {
        for (ci, con) in w.cons.iter().enumerate() {
            if con.attach.is_some() && con.dropped_at.is_none() && con.rx.is_some() && con.closed_at.is_none() {
                add("dl: the runtime stopped but a consumer's channel was left open".into(), format!("consumer {}", ci + 1));
            }
        }
    }
    out
}

/// Leg `dl-timeouts` of C17.
pub fn run_timeouts_leg(ctx: &Ctx) {
    TIMEOUT_ORACLE.store(true, std::sync::atomic::Ordering::Relaxed);
    let quick = ctx.quick();
    let w = Step::Wait;
    let att = |sync: bool| Step::Attach(sync, true);
    let mut scripts: Vec<(Kind, Vec<(usize, Step)>, usize)> = vec![];
    for kind in [Kind::Value, Kind::Map] {
        let (l1, l2, c1) = match kind {
            Kind::Value => (LOp::Set(Some(101)), LOp::Set(Some(102)), LOp::Set(Some(1))),
            Kind::Map => (LOp::Upd(1, 101), LOp::Upd(2, 102), LOp::Upd(1, 1)),
        };
        // a consumer keeps the runtime alive for as long as it stays
        scripts.push((kind, vec![(1, att(true)), (0, Step::Lane(l1.clone())), (0, w(11)), (0, Step::Lane(l2.clone())), (0, w(11)), (1, Step::Drop), (0, Step::Lane(l1.clone()))], 1));
        // consumers come and go around the timeout
        scripts.push((kind, vec![(1, att(true)), (1, Step::Drop), (0, Step::Lane(l1.clone())), (0, w(6)), (2, att(false)), (2, Step::Cmd(c1.clone())), (2, Step::Drop), (0, Step::Lane(l2.clone())), (0, w(6)), (0, w(6))], 2));
        scripts.push((kind, vec![(0, w(6)), (1, att(true)), (0, w(6)), (1, Step::Cmd(c1.clone())), (0, w(6)), (1, Step::Drop), (0, Step::Lane(l1.clone())), (0, w(9)), (2, att(true)), (0, w(2)), (2, Step::Drop), (0, Step::Lane(l2.clone()))], 2));
        // a consumer that has closed only one of its two channels is still attached to one task
        scripts.push((kind, vec![(1, att(false)), (1, Step::DropRx), (0, Step::Lane(l1.clone())), (0, Step::Lane(l2.clone())), (0, w(11)), (2, att(true)), (1, Step::DropTx), (2, Step::DropTx), (0, w(11)), (0, w(5))], 2));
        scripts.push((kind, vec![(1, att(false)), (1, Step::DropTx), (0, w(11)), (2, att(true)), (1, Step::DropRx), (2, Step::DropRx), (0, Step::Lane(l1.clone())), (0, Step::Lane(l2.clone())), (0, w(11)), (0, w(5))], 2));
        // the read task votes alone (its only consumer closed its receiving side; the task notices when
        // the flush after the *next* event completes), the lane keeps talking - which re-arms the read
        // task's countdown while its vote is outstanding - then the first consumer leaves entirely and a
        // listen-only consumer attaches: the vote is withdrawn and nothing may be left armed
        for sync2 in [false, true] {
            scripts.push((
                kind,
                vec![
                    (1, att(false)),
                    (1, Step::DropRx),
                    (0, Step::Lane(l1.clone())),
                    (0, w(2)),
                    (0, Step::Lane(l2.clone())),
                    (0, w(11)),
                    (0, Step::Lane(l1.clone())),
                    (0, w(2)),
                    (1, Step::DropTx),
                    (0, w(2)),
                    (2, att(sync2)),
                    (2, Step::DropTx),
                    (0, w(5)),
                    (0, Step::Lane(l2.clone())),
                    (0, w(2)),
                    (0, w(4)),
                    (0, Step::Lane(l1.clone())),
                ],
                2,
            ));
        }
        // nobody ever attaches / attaches after the runtime has gone
        scripts.push((kind, vec![(0, w(11)), (1, att(true))], 1));
        scripts.push((kind, vec![(0, w(6)), (0, w(6)), (1, att(false)), (1, Step::Cmd(c1.clone()))], 1));
        // a consumer attaching at every position of a wait sequence
        let every = if quick { 2 } else { 1 };
        for (i, s) in interleavings(&[vec![w(4), w(4), w(4), w(4)], vec![att(true), Step::Cmd(c1.clone()), Step::Drop]]).into_iter().enumerate() {
            if i % every == 0 {
                scripts.push((kind, s, 1));
            }
        }
    }
    let mut cfgs = vec![];
    for (kind, script, consumers) in &scripts {
        for (remote_buf, dl_buf) in [(4096usize, 4096usize), (16, 16)] {
            for budget in [2usize, 64] {
                for mode in [Mode::Eager, Mode::Burst, Mode::SlowAfterLink] {
                    cfgs.push(Cfg { kind: *kind, script: script.clone(), consumers: *consumers, remote_buf, dl_buf, sock_credit: if remote_buf == 16 { 5 } else { 0 }, budget, mode, ticks: 2, no_final_stop: true, seed: 0, ignore_bad: false });
                }
            }
        }
    }
    run_cfgs(ctx, "dl-timeouts-d1", cfgs, if quick { 1 } else { 2 }, if quick { 20_000 } else { 500_000 }, if quick { 15.0 } else { 600.0 });
}

/// Replay of a `dl-timeouts` violation (C17).
pub fn timeouts_replay(ctx: &Ctx, r: &serde_json::Value) {
    TIMEOUT_ORACLE.store(true, std::sync::atomic::Ordering::Relaxed);
    if std::env::var("PROBE_LOG").is_ok() {
        tracing_subscriber::fmt().with_max_level(tracing::Level::TRACE).without_time().with_target(false).init();
    }
    let d = &r["detail"];
    let cfg: Cfg = serde_json::from_value(d["cfg"].clone()).unwrap_or_else(|e| vcommon::machinery_failure(&format!("bad cfg: {}", e)));
    let choices: Vec<u8> = d["choices"].as_array().map(|a| a.iter().map(|x| x.as_u64().unwrap() as u8).collect()).unwrap_or_default();
    let sig = r["signature"].as_str().unwrap_or("");
    let mut hits = 0;
    for round in 0..2 {
        let rec = run_one::<DlWorld>(&cfg, &choices, true).unwrap_or_else(|e| vcommon::machinery_failure(&e));
        if round == 0 {
            println!("schedule: {}", rec.labels.join(" "));
            for l in &rec.outcome.log {
                println!("{}", l);
            }
        }
        if rec.outcome.violations.iter().any(|(s, _)| s == sig) {
            hits += 1;
        }
    }
    if hits == 1 {
        vcommon::machinery_failure("nondeterminism in replay");
    }
    if hits == 2 {
        println!("REPRODUCED: {}", sig);
        ctx.violation(r["leg"].as_str().unwrap_or("replay"), sig, d.clone());
    }
}

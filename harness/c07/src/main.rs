fn main() {
    c07::run_main();
}

fn main() {
    vcommon::machinery_failure("C07: engine not built yet");
}

use bytes::BytesMut;
use swimos_agent_protocol::encoding::downlink::MapNotificationDecoder;
use tokio_util::codec::Decoder;
fn main() {
    let chunks: Vec<Vec<u8>> = vec![
        vec![3, 0, 0, 0, 0, 0, 0, 0, 19, 0, 0],
        vec![0, 0, 0, 0, 0, 11, 0, 0, 0, 0, 0, 0, 0, 0, 1, 50],
        vec![50],
    ];
    let mut dec = MapNotificationDecoder::<i32, i32>::default();
    let mut buf = BytesMut::new();
    for c in &chunks {
        buf.extend_from_slice(c);
        loop {
            match dec.decode(&mut buf) {
                Ok(Some(m)) => println!("decoded {:?}", m),
                Ok(None) => { println!("none (buf {:?})", &buf[..]); break; }
                Err(e) => { println!("ERR {} (buf {:?})", e, &buf[..]); break; }
            }
        }
    }
    // one shot
    let mut dec = MapNotificationDecoder::<i32, i32>::default();
    let mut buf = BytesMut::new();
    for c in &chunks { buf.extend_from_slice(c); }
    println!("one-shot: {:?}", dec.decode(&mut buf).map_err(|e| e.to_string()));
}

//! Handler programs: the AST, its canonical text form and the smallest-first enumerator.

use serde::{Deserialize, Serialize};
use std::collections::HashMap;
use std::fmt;

/// An operand: a literal (unique per AST node, assigned by `number`) or the value bound by the
/// innermost enclosing `Bind`.
#[derive(Clone, Copy, Debug, PartialEq, Eq, Hash, Serialize, Deserialize)]
pub enum X {
    Lit(i32),
    Y,
}

/// What a `Bind` reads: lane v, lane w, or the entry with key 1 of lane m.
#[derive(Clone, Copy, Debug, PartialEq, Eq, Hash, Serialize, Deserialize)]
pub enum G {
    V,
    W,
    E,
}

#[derive(Clone, Debug, PartialEq, Eq, Hash, Serialize, Deserialize)]
pub enum H {
    /// Pure side effect recording its tag.
    Eff(i32),
    SetV(X),
    SetW(X),
    Upd(i32, X),
    Rem(i32),
    Clr,
    /// Reads that record what they saw (tag).
    GetV(i32),
    GetW(i32),
    GetM(i32),
    /// `get.and_then(|y| body)`: records what it saw and binds it for the body.
    Bind(i32, G, Box<H>),
    /// `a.followed_by(b)`.
    Seq(Box<H>, Box<H>),
    /// `a.and_then(|()| b)`: like `Seq`, but `b` is only constructed once `a` (and everything `a`
    /// triggered) has completed.
    Then(Box<H>, Box<H>),
    Fail,
    /// `context.suspend(async { body })`; the tag identifies the suspended cascade.
    Suspend(i32, Box<H>),
}

pub const SLOTS: [&str; 10] =
    ["root", "v.on_event", "v.on_set", "w.on_event", "w.on_set", "m.on_update", "m.on_remove", "m.on_clear", "on_start", "on_stop"];
pub const ROOT: usize = 0;
pub const V_EV: usize = 1;
pub const V_SET: usize = 2;
pub const W_EV: usize = 3;
pub const W_SET: usize = 4;
pub const M_UPD: usize = 5;
pub const M_REM: usize = 6;
pub const M_CLR: usize = 7;
pub const START: usize = 8;
pub const STOP: usize = 9;

/// Level of a slot: which lanes its handler may modify (0: v,w,m; 1: w,m; 2: m; 3: none).
pub fn level(slot: usize) -> u8 {
    match slot {
        ROOT | START | STOP => 0,
        V_EV | V_SET => 1,
        W_EV | W_SET => 2,
        _ => 3,
    }
}

#[derive(Clone, Debug, PartialEq, Eq, Hash, Serialize, Deserialize)]
pub struct Program {
    pub slots: Vec<Option<H>>,
}

impl H {
    pub fn size(&self) -> usize {
        match self {
            H::Bind(_, _, b) | H::Suspend(_, b) => 1 + b.size(),
            H::Seq(a, b) | H::Then(a, b) => 1 + a.size() + b.size(),
            _ => 1,
        }
    }

    /// Give every node a unique tag / literal, in preorder, starting at `*next`.
    pub fn number(&mut self, next: &mut i32) {
        let id = *next;
        *next += 1;
        match self {
            H::Eff(t) | H::GetV(t) | H::GetW(t) | H::GetM(t) => *t = id,
            H::SetV(x) | H::SetW(x) | H::Upd(_, x) => {
                if let X::Lit(l) = x {
                    *l = id
                }
            }
            H::Rem(_) | H::Clr | H::Fail => {}
            H::Bind(t, _, b) | H::Suspend(t, b) => {
                *t = id;
                b.number(next);
            }
            H::Seq(a, b) | H::Then(a, b) => {
                a.number(next);
                b.number(next);
            }
        }
    }

    pub fn contains(&self, f: &dyn Fn(&H) -> bool) -> bool {
        if f(self) {
            return true;
        }
        match self {
            H::Bind(_, _, b) | H::Suspend(_, b) => b.contains(f),
            H::Seq(a, b) | H::Then(a, b) => a.contains(f) || b.contains(f),
            _ => false,
        }
    }

    /// Shape without tags and literals (for signatures).
    pub fn shape(&self) -> String {
        let x = |x: &X| match x {
            X::Lit(_) => "#",
            X::Y => "y",
        };
        match self {
            H::Eff(_) => "Eff".into(),
            H::SetV(a) => format!("SetV({})", x(a)),
            H::SetW(a) => format!("SetW({})", x(a)),
            H::Upd(k, a) => format!("Upd({},{})", k, x(a)),
            H::Rem(k) => format!("Rem({})", k),
            H::Clr => "Clr".into(),
            H::GetV(_) => "GetV".into(),
            H::GetW(_) => "GetW".into(),
            H::GetM(_) => "GetM".into(),
            H::Bind(_, g, b) => format!("{:?}>>=\\y.({})", g, b.shape()),
            H::Seq(a, b) => format!("({};{})", a.shape(), b.shape()),
            H::Then(a, b) => format!("({}>>{})", a.shape(), b.shape()),
            H::Fail => "Fail".into(),
            H::Suspend(_, b) => format!("Suspend({})", b.shape()),
        }
    }
}

impl fmt::Display for H {
    fn fmt(&self, f: &mut fmt::Formatter<'_>) -> fmt::Result {
        let x = |x: &X| match x {
            X::Lit(l) => l.to_string(),
            X::Y => "y".to_string(),
        };
        match self {
            H::Eff(t) => write!(f, "Eff#{}", t),
            H::SetV(a) => write!(f, "SetV({})", x(a)),
            H::SetW(a) => write!(f, "SetW({})", x(a)),
            H::Upd(k, a) => write!(f, "Upd({},{})", k, x(a)),
            H::Rem(k) => write!(f, "Rem({})", k),
            H::Clr => write!(f, "Clr"),
            H::GetV(t) => write!(f, "GetV#{}", t),
            H::GetW(t) => write!(f, "GetW#{}", t),
            H::GetM(t) => write!(f, "GetM#{}", t),
            H::Bind(t, g, b) => write!(f, "{:?}#{}>>=\\y.({})", g, t, b),
            H::Seq(a, b) => write!(f, "({} ; {})", a, b),
            H::Then(a, b) => write!(f, "({} >> {})", a, b),
            H::Fail => write!(f, "Fail"),
            H::Suspend(t, b) => write!(f, "Suspend#{}({})", t, b),
        }
    }
}

impl Program {
    pub fn empty() -> Program {
        Program { slots: vec![None; SLOTS.len()] }
    }
    pub fn size(&self) -> usize {
        self.slots.iter().flatten().map(|h| h.size()).sum()
    }
    pub fn number(&mut self) {
        for (i, s) in self.slots.iter_mut().enumerate() {
            if let Some(h) = s {
                let mut next = (i as i32 + 1) * 10;
                h.number(&mut next);
            }
        }
    }
    pub fn contains(&self, f: &dyn Fn(&H) -> bool) -> bool {
        self.slots.iter().flatten().any(|h| h.contains(f))
    }
    pub fn shape(&self) -> String {
        let parts: Vec<String> =
            self.slots.iter().enumerate().filter_map(|(i, s)| s.as_ref().map(|h| format!("{}={}", SLOTS[i], h.shape()))).collect();
        if parts.is_empty() {
            "<empty>".into()
        } else {
            parts.join(" | ")
        }
    }

    /// Every non-empty lane slot can syntactically be triggered by some other non-empty slot (an
    /// unreachable slot's body cannot influence the execution, so those assignments are
    /// represented by the one with that slot empty).
    pub fn reachable(&self) -> bool {
        self.reachable_with(Ext::default())
    }

    /// As `reachable`, for a script whose remote itself commands some lanes (`ext`).
    pub fn reachable_with(&self, ext: Ext) -> bool {
        let has = |slots: &[usize], f: &dyn Fn(&H) -> bool| slots.iter().any(|&s| self.slots[s].as_ref().map(|h| h.contains(f)).unwrap_or(false));
        let l0 = [ROOT, START, STOP];
        let l1 = [ROOT, START, STOP, V_EV, V_SET];
        let l2 = [ROOT, START, STOP, V_EV, V_SET, W_EV, W_SET];
        if (self.slots[V_EV].is_some() || self.slots[V_SET].is_some()) && !(ext.v || has(&l0, &|h| matches!(h, H::SetV(_)))) {
            return false;
        }
        if (self.slots[W_EV].is_some() || self.slots[W_SET].is_some()) && !(ext.w || has(&l1, &|h| matches!(h, H::SetW(_)))) {
            return false;
        }
        let upd = ext.upd || has(&l2, &|h| matches!(h, H::Upd(..)));
        if self.slots[M_UPD].is_some() && !upd {
            return false;
        }
        if self.slots[M_REM].is_some() && !((ext.rem || has(&l2, &|h| matches!(h, H::Rem(_)))) && upd) {
            return false;
        }
        if self.slots[M_CLR].is_some() && !(ext.clr || has(&l2, &|h| matches!(h, H::Clr))) {
            return false;
        }
        true
    }
}

/// Which lane events a script's remote triggers directly.
#[derive(Clone, Copy, Debug, Default)]
pub struct Ext {
    pub v: bool,
    pub w: bool,
    pub upd: bool,
    pub rem: bool,
    pub clr: bool,
}

impl fmt::Display for Program {
    fn fmt(&self, f: &mut fmt::Formatter<'_>) -> fmt::Result {
        let parts: Vec<String> = self.slots.iter().enumerate().filter_map(|(i, s)| s.as_ref().map(|h| format!("{}={}", SLOTS[i], h))).collect();
        if parts.is_empty() {
            write!(f, "<empty>")
        } else {
            write!(f, "{}", parts.join(" | "))
        }
    }
}

/// Memoised tree lists per (level, size, inside a Bind, inside a Suspend).
#[derive(Default)]
pub struct Trees {
    memo: HashMap<(u8, usize, bool, bool), std::sync::Arc<Vec<H>>>,
}

pub fn leaves(level: u8, in_bind: bool) -> Vec<H> {
    let mut out = vec![H::Eff(0)];
    if level == 0 {
        out.push(H::SetV(X::Lit(0)));
        if in_bind {
            out.push(H::SetV(X::Y));
        }
    }
    if level <= 1 {
        out.push(H::SetW(X::Lit(0)));
        if in_bind {
            out.push(H::SetW(X::Y));
        }
    }
    if level <= 2 {
        out.push(H::Upd(1, X::Lit(0)));
        out.push(H::Upd(2, X::Lit(0)));
        if in_bind {
            out.push(H::Upd(1, X::Y));
        }
        out.push(H::Rem(1));
        out.push(H::Rem(2));
        out.push(H::Clr);
    }
    out.push(H::GetV(0));
    out.push(H::GetW(0));
    out.push(H::GetM(0));
    out.push(H::Fail);
    out
}

impl Trees {
    pub fn get(&mut self, level: u8, n: usize, in_bind: bool, in_susp: bool) -> std::sync::Arc<Vec<H>> {
        if let Some(v) = self.memo.get(&(level, n, in_bind, in_susp)) {
            return v.clone();
        }
        let mut out = vec![];
        if n == 1 {
            out = leaves(level, in_bind);
        } else if n >= 2 {
            for g in [G::V, G::W, G::E] {
                for b in self.get(level, n - 1, true, in_susp).iter() {
                    out.push(H::Bind(0, g, Box::new(b.clone())));
                }
            }
            if !in_susp {
                for b in self.get(level, n - 1, in_bind, true).iter() {
                    out.push(H::Suspend(0, Box::new(b.clone())));
                }
            }
            if n >= 3 {
                for i in 1..=(n - 2) {
                    let la = self.get(level, i, in_bind, in_susp);
                    let lb = self.get(level, n - 1 - i, in_bind, in_susp);
                    for a in la.iter() {
                        for b in lb.iter() {
                            out.push(H::Seq(Box::new(a.clone()), Box::new(b.clone())));
                            out.push(H::Then(Box::new(a.clone()), Box::new(b.clone())));
                        }
                    }
                }
            }
        }
        let v = std::sync::Arc::new(out);
        self.memo.insert((level, n, in_bind, in_susp), v.clone());
        v
    }
}

/// One block of the program space: a distribution of sizes over the slots; its programs are the
/// cartesian product of the per-slot tree lists (mixed radix index).
pub struct Block {
    pub sizes: [usize; 10],
    pub lists: Vec<Option<std::sync::Arc<Vec<H>>>>,
    pub count: u64,
}

impl Block {
    pub fn program(&self, mut ix: u64) -> Program {
        let mut p = Program::empty();
        for (s, l) in self.lists.iter().enumerate() {
            if let Some(l) = l {
                let n = l.len() as u64;
                p.slots[s] = Some(l[(ix % n) as usize].clone());
                ix /= n;
            }
        }
        p.number();
        p
    }
}

/// All distributions of exactly `total` nodes over the slots (smallest-first order is obtained by
/// calling this for total = 0, 1, 2, ...).
pub fn blocks(trees: &mut Trees, total: usize, with_start_stop: bool, require_level0: bool) -> Vec<Block> {
    fn rec(slot: usize, left: usize, cur: &mut [usize; 10], out: &mut Vec<[usize; 10]>) {
        if slot == 10 {
            if left == 0 {
                out.push(*cur);
            }
            return;
        }
        for n in 0..=left {
            cur[slot] = n;
            rec(slot + 1, left - n, cur, out);
        }
        cur[slot] = 0;
    }
    let mut dists = vec![];
    rec(0, total, &mut [0; 10], &mut dists);
    let mut out = vec![];
    for sizes in dists {
        // cheap necessary condition for reachability: lane slots need a level-0 slot
        if require_level0 && sizes[ROOT] + sizes[START] + sizes[STOP] == 0 && total > 0 {
            continue;
        }
        if !with_start_stop && sizes[START] + sizes[STOP] > 0 {
            continue;
        }
        let mut lists = vec![];
        let mut count = 1u64;
        for (s, &n) in sizes.iter().enumerate() {
            if n == 0 {
                lists.push(None);
            } else {
                let l = trees.get(level(s), n, false, false);
                count = count.saturating_mul(l.len() as u64);
                lists.push(Some(l));
            }
        }
        if count > 0 {
            out.push(Block { sizes, lists, count });
        }
    }
    out
}

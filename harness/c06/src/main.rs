//! C06 - Event handlers run one at a time, depth-first, in the documented order.
//!
//! Engine E4: every handler program of a small grammar (smallest first) is executed by the REAL
//! agent implementation inside the REAL agent runtime (`AgentRouteTask::run_agent()` under the
//! controlled executor) and its recorded trace is compared with a reference interpreter of the
//! documented semantics. Engine E1: the smallest programs additionally under every schedule with a
//! bounded number of deviations from the canonical one.

mod agent;
mod alone;
mod prog;
mod refint;

use agent::{C6Agent, C6Lifecycle};
use asys::agent::TruthLog;
use asys::grid::{replay, run_grid, GridSpec};
use asys::scripts::{cmd, link, sync};
use asys::world::{set_agent_factory, set_checker, AsWorld, Cfg, Mode, Step};
use prog::*;
use serde_json::json;
use std::collections::HashSet;
use std::sync::Arc;
use std::time::Instant;
use swimos::agent::agent_model::AgentModel;
use vcommon::sched::run_one;
use vcommon::{Ctx, Leg};

fn factory(cfg: &Cfg, log: Arc<TruthLog>) -> swimos_api::agent::BoxAgent {
    // the marker `INITDYN:` in front of the program selects the lifecycle that also asks for a
    // dynamic lane from on_init
    let (init_dyn, text) = match cfg.extra.strip_prefix(refint::INITDYN) {
        Some(t) => (true, t),
        None => (false, cfg.extra.as_str()),
    };
    let prog: Program = serde_json::from_str(text).unwrap_or_else(|_| Program::empty());
    let lifecycle = C6Lifecycle { log: log.clone(), prog: Arc::new(prog) };
    if init_dyn {
        Box::new(AgentModel::new(C6Agent::default, agent::InitDyn { inner: lifecycle.into_lifecycle(), log }))
    } else {
        Box::new(AgentModel::new(C6Agent::default, lifecycle.into_lifecycle()))
    }
}

/// Script variants: 1 = one command to lane c; 2 = two commands to lane c; 3 = a command to c,
/// then the remote itself sets v and updates m (cascades whose root is a lane command), then c again.
fn cfg_for(p: &Program, variant: usize) -> Cfg {
    let go = || (0usize, cmd("c", "go"));
    let script = match variant {
        1 => vec![go()],
        2 => vec![go(), go()],
        _ => vec![go(), (0, cmd("v", "5")), (0, cmd("m", "@update(key:1) 7")), go()],
    };
    let mut c = Cfg::basic(script, 1);
    c.extra = serde_json::to_string(p).unwrap();
    if INIT_DYN.load(std::sync::atomic::Ordering::Relaxed) {
        c.extra = format!("{}{}", refint::INITDYN, c.extra);
    }
    c
}

/// While set, `cfg_for` selects the lifecycle that also requests a dynamic lane from on_init.
static INIT_DYN: std::sync::atomic::AtomicBool = std::sync::atomic::AtomicBool::new(false);

#[derive(Default)]
struct ChunkOut {
    programs: u64,
    unreachable: u64,
    executions: u64,
    steps: u64,
    nontrivial: u64,
    failing: u64,
    suspending: u64,
    digests: Vec<u64>,
    violations: Vec<(String, String, Cfg)>,
    machinery: Vec<String>,
    sample: Option<serde_json::Value>,
}

/// Run one program on the canonical schedule with `ncmds` commands.
fn run_program(p: &Program, variant: usize, out: &mut ChunkOut, check_determinism: bool) {
    run_cfg(p, cfg_for(p, variant), out, check_determinism)
}

fn run_cfg(p: &Program, cfg: Cfg, out: &mut ChunkOut, check_determinism: bool) {
    match run_one::<AsWorld>(&cfg, &[], false) {
        Ok(rec) => {
            out.executions += 1;
            out.steps += rec.choices.len() as u64;
            out.digests.push(rec.outcome.digest);
            if rec.horizon_hit {
                out.violations.push(("law=terminates (no quiescence within horizon)".into(), format!("program {}", p), cfg.clone()));
            }
            for (s, e) in rec.outcome.violations {
                out.violations.push((s, e, cfg.clone()));
            }
            if check_determinism {
                match run_one::<AsWorld>(&cfg, &[], false) {
                    Ok(r2) => {
                        out.executions += 1;
                        out.steps += r2.choices.len() as u64;
                        if r2.outcome.digest != rec.outcome.digest || r2.choices.len() != rec.choices.len() {
                            out.machinery.push(format!("nondeterminism: two canonical runs of {} differ", p));
                        }
                    }
                    Err(e) => out.machinery.push(e),
                }
            }
        }
        Err(e) => {
            if e.starts_with("panic:") {
                out.violations.push(("law=no_panic".into(), format!("program {}: {}", p, e), cfg));
            } else {
                out.machinery.push(e);
            }
        }
    }
}

struct E4Spec {
    name: &'static str,
    /// Smallest total AST size of this leg (smaller sizes are covered by another leg).
    min_size: usize,
    /// Largest total AST size run with the one-command script / the mixed script.
    max_size_1: usize,
    max_size_2: usize,
    wall_cap_s: f64,
    with_start_stop: bool,
}

/// Leg `e4-nested-combinators`: the root handler is every composition of three leaf actions with
/// two combinators (`;` and `>>`), in both nestings - in particular the left-nested forms
/// `(a ; b) >> c` in which a lane is modified in a non-final step of the first operand of
/// `and_then`. These programs have AST size 5, beyond the quick bound of the general legs.
fn run_e4_nested(ctx: &Ctx, wall_cap_s: f64) {
    let t0 = Instant::now();
    let lv = prog::leaves(0, false);
    let mut programs: Vec<Program> = vec![];
    let comb = |k: u8, a: H, b: H| if k == 0 { H::Seq(Box::new(a), Box::new(b)) } else { H::Then(Box::new(a), Box::new(b)) };
    for a in &lv {
        for b in &lv {
            for c in &lv {
                for k1 in 0..2u8 {
                    for k2 in 0..2u8 {
                        for left in [true, false] {
                            let h = if left { comb(k2, comb(k1, a.clone(), b.clone()), c.clone()) } else { comb(k1, a.clone(), comb(k2, b.clone(), c.clone())) };
                            let mut p = Program::empty();
                            p.slots[prog::ROOT] = Some(h);
                            p.number();
                            programs.push(p);
                        }
                    }
                }
            }
        }
    }
    const CHUNK: usize = 128;
    let work: Vec<usize> = (0..programs.len()).step_by(CHUNK).collect();
    let results: Vec<Option<ChunkOut>> = vcommon::par_map(&work, vcommon::ncpu(), |_, &s| {
        if t0.elapsed().as_secs_f64() > wall_cap_s {
            return None;
        }
        let mut out = ChunkOut::default();
        for p in &programs[s..(s + CHUNK).min(programs.len())] {
            out.programs += 1;
            run_program(p, 1, &mut out, false);
        }
        Some(out)
    });
    let mut tot = ChunkOut::default();
    let mut skipped = 0;
    let mut digests: HashSet<u64> = HashSet::new();
    for r in results {
        match r {
            None => skipped += 1,
            Some(o) => {
                tot.programs += o.programs;
                tot.executions += o.executions;
                tot.steps += o.steps;
                digests.extend(o.digests);
                for (sig, expl, cfg) in o.violations {
                    ctx.violation("e4-nested-combinators", &sig, json!({"cfg": serde_json::to_value(&cfg).unwrap(), "choices": [], "what": expl.lines().next().unwrap_or(""), "input": expl.lines().nth(1).unwrap_or(""), "explanation": expl}));
                }
                if !o.machinery.is_empty() {
                    eprintln!("machinery errors: {:?}", &o.machinery[..o.machinery.len().min(3)]);
                    vcommon::machinery_failure("C06 E4 nested: execution failed (see above)");
                }
            }
        }
    }
    ctx.add_leg(Leg {
        name: "e4-nested-combinators".into(),
        engine: "E4-programs".into(),
        states: tot.programs,
        transitions: tot.steps,
        evaluations: tot.executions,
        distinct_nontrivial: digests.len() as u64,
        rule: "root handler = every composition of three leaf actions with two combinators (followed_by / and_then) in both nestings; each executed on the canonical schedule and compared with the reference interpreter".into(),
        samples: vec![],
        exhaustive: skipped == 0,
        bounds: json!({"leaves": lv.len(), "shapes": ["(a o b) o c", "a o (b o c)"], "combinators": ["followed_by", "and_then"], "chunks_skipped_by_wall_cap": skipped}),
        wall_s: t0.elapsed().as_secs_f64(),
    });
}

fn run_e4(ctx: &Ctx, spec: E4Spec) {
    let t0 = Instant::now();
    let mut trees = Trees::default();
    let mut tot = ChunkOut::default();
    let mut digests: HashSet<u64> = HashSet::new();
    let mut per_size = vec![];
    let mut completed_size: i64 = -1;
    let mut capped = false;
    let mut samples = vec![];
    const CHUNK: u64 = 256;
    for total in spec.min_size..=spec.max_size_1 {
        let bl = blocks(&mut trees, total, spec.with_start_stop, true);
        let mut work: Vec<(usize, u64, u64)> = vec![];
        for (bi, b) in bl.iter().enumerate() {
            let mut s = 0;
            while s < b.count {
                let e = (s + CHUNK).min(b.count);
                work.push((bi, s, e));
                s = e;
            }
        }
        let two = total <= spec.max_size_2;
        let results: Vec<Option<ChunkOut>> = vcommon::par_map(&work, vcommon::ncpu(), |wi, &(bi, s, e)| {
            if t0.elapsed().as_secs_f64() > spec.wall_cap_s {
                return None;
            }
            let mut out = ChunkOut::default();
            for ix in s..e {
                let p = bl[bi].program(ix);
                if !p.reachable() {
                    out.unreachable += 1;
                    continue;
                }
                out.programs += 1;
                let r = refint::expected(&p, &[refint::RootEv::Cmd], None);
                if r.nested_bodies > 0 {
                    out.nontrivial += 1;
                }
                if p.contains(&|h| matches!(h, H::Fail)) {
                    out.failing += 1;
                }
                if p.contains(&|h| matches!(h, H::Suspend(..))) {
                    out.suspending += 1;
                }
                let det = ix == s && wi % 8 == 0;
                run_program(&p, 1, &mut out, det);
                if two {
                    run_program(&p, 3, &mut out, false);
                }
                if out.sample.is_none() && r.nested_bodies > 1 && wi % 97 == 0 {
                    out.sample = Some(json!({"program": p.to_string(), "reference_trace_one_command": r.trace}));
                }
            }
            Some(out)
        });
        let mut size_programs = 0u64;
        let mut size_exec = 0u64;
        let mut skipped = 0usize;
        for r in results {
            match r {
                None => skipped += 1,
                Some(o) => {
                    size_programs += o.programs;
                    size_exec += o.executions;
                    tot.programs += o.programs;
                    tot.unreachable += o.unreachable;
                    tot.executions += o.executions;
                    tot.steps += o.steps;
                    tot.nontrivial += o.nontrivial;
                    tot.failing += o.failing;
                    tot.suspending += o.suspending;
                    digests.extend(o.digests);
                    for (sig, expl, cfg) in o.violations {
                        ctx.violation(spec.name, &sig, json!({"cfg": serde_json::to_value(&cfg).unwrap(), "choices": [], "what": expl.lines().next().unwrap_or(""), "input": expl.lines().nth(1).unwrap_or(""), "explanation": expl}));
                    }
                    if !o.machinery.is_empty() {
                        eprintln!("machinery errors: {:?}", &o.machinery[..o.machinery.len().min(3)]);
                        vcommon::machinery_failure("C06 E4: execution failed or was not deterministic (see above)");
                    }
                    if let Some(s) = o.sample {
                        if samples.len() < 3 {
                            samples.push(s);
                        }
                    }
                }
            }
        }
        per_size.push(json!({"total_size": total, "programs": size_programs, "executions": size_exec, "mixed_script_variant": two, "chunks_skipped_by_wall_cap": skipped}));
        eprintln!("[C06] {} size {}: programs={} executions={} skipped_chunks={} t={:.1}s", spec.name, total, size_programs, size_exec, skipped, t0.elapsed().as_secs_f64());
        if skipped > 0 {
            capped = true;
            break;
        }
        completed_size = total as i64;
    }
    ctx.add_leg(Leg {
        name: spec.name.into(),
        engine: "E4-programs".into(),
        states: tot.programs,
        transitions: tot.steps,
        evaluations: tot.executions,
        distinct_nontrivial: tot.nontrivial,
        rule: "every assignment of handler programs (grammar in bounds.grammar) to the 10 lifecycle slots with the stated total AST size, each executed by the real agent + runtime on the canonical schedule and compared entry by entry with the reference interpreter; states = distinct programs; non-trivial = programs in whose execution at least one lane lifecycle handler with a non-empty body runs nested inside another handler".into(),
        samples,
        exhaustive: !capped,
        bounds: json!({
            "grammar": "H ::= Eff | SetV x | SetW x | Upd k x | Rem k | Clr | GetV | GetW | GetM | (GetV|GetW|GetEntry 1) >>= \\y.H (and_then) | H;H (followed_by) | H>>H (and_then on the unit result) | Fail | Suspend H (not nested); x ::= literal unique per node | y; k in {1,2}; a slot's handler may only modify lanes later in c < v < w < m",
            "slots": SLOTS,
            "size": "number of AST nodes summed over all slots (Seq, Bind and Suspend count 1)",
            "min_total_size": spec.min_size, "max_total_size_one_command": spec.max_size_1, "max_total_size_mixed_script": spec.max_size_2,
            "scripts": "one-command: [c go]; mixed: [c go, v 5, m @update(key:1) 7, c go] (lane commands start cascades without the root handler)",
            "largest_total_size_completed": completed_size, "wall_cap_s": spec.wall_cap_s, "wall_cap_hit": capped,
            "per_size": per_size, "programs_with_fail": tot.failing, "programs_with_suspend": tot.suspending,
            "assignments_skipped_as_unreachable_duplicates": tot.unreachable,
            "distinct_observation_digests": digests.len(),
        }),
        wall_s: t0.elapsed().as_secs_f64(),
    });
}

/// Scripts in which the remote talks to the lanes directly: link / sync requests (which trigger no
/// lifecycle handler) interleaved with commands to v, w and m (which start cascades without the
/// root handler) and commands to c.
fn runtime_scripts() -> Vec<(&'static str, Vec<(usize, Step)>, Ext)> {
    let s = |steps: Vec<Step>| steps.into_iter().map(|x| (0usize, x)).collect::<Vec<_>>();
    let go = || cmd("c", "go");
    vec![
        ("v-link-set-sync-set", s(vec![link("v"), cmd("v", "5"), sync("v"), cmd("v", "6"), go()]), Ext { v: true, ..Default::default() }),
        ("v-sync-go-sync-go", s(vec![sync("v"), go(), sync("v"), go()]), Ext::default()),
        ("m-link-upd-sync-rem", s(vec![link("m"), cmd("m", "@update(key:1) 7"), sync("m"), cmd("m", "@remove(key:1)"), go()]), Ext { upd: true, rem: true, ..Default::default() }),
        // take / drop addressed to the map lane: the entries go one by one, on_remove for each
        ("m-upd-upd-drop-all", s(vec![link("m"), cmd("m", "@update(key:1) 7"), cmd("m", "@update(key:2) 8"), cmd("m", "@drop(2)"), go()]), Ext { upd: true, rem: true, ..Default::default() }),
        ("m-upd-upd-upd-take1", s(vec![cmd("m", "@update(key:3) 7"), cmd("m", "@update(key:1) 8"), cmd("m", "@update(key:2) 9"), sync("m"), cmd("m", "@take(1)"), go()]), Ext { upd: true, rem: true, ..Default::default() }),
        (
            "w-m-mixed",
            s(vec![link("w"), sync("m"), cmd("w", "3"), sync("w"), cmd("m", "@update(key:2) 8"), go(), cmd("w", "4"), sync("w"), cmd("m", "@clear")]),
            Ext { w: true, upd: true, clr: true, ..Default::default() },
        ),
    ]
}

/// Runtime parameters: (lane -> runtime channel size, delivery mode, coop budget).
fn runtime_params(full: bool) -> Vec<(usize, Mode, usize)> {
    let mut out = vec![];
    for lane_buf in [8usize, 4096] {
        for mode in [Mode::Eager, Mode::Burst] {
            for budget in [2usize, 64] {
                if full || lane_buf == 8 || (mode == Mode::Eager && budget == 64) {
                    out.push((lane_buf, mode, budget));
                }
            }
        }
    }
    out
}

fn runtime_cfg(p: &Program, script: &[(usize, Step)], (lane_buf, mode, budget): (usize, Mode, usize)) -> Cfg {
    let mut c = cfg_for(p, 1);
    c.script = script.to_vec();
    c.lane_buf = lane_buf;
    c.mode = mode;
    c.budget = budget;
    c
}

/// All programs (command cascades; lane slots may be non-empty without a handler that triggers
/// them, the script does) up to `max_size`, each with every script that can reach its non-empty
/// slots, on the canonical schedule of every runtime parameter combination.
fn run_runtime_grid(ctx: &Ctx, name: &'static str, min_size: usize, max_size_full: usize, max_size_core: usize, wall_cap_s: f64) {
    let t0 = Instant::now();
    let mut trees = Trees::default();
    let scripts = runtime_scripts();
    let mut tot = ChunkOut::default();
    let mut digests: HashSet<u64> = HashSet::new();
    let mut per_size = vec![];
    let mut capped = false;
    let mut samples = vec![];
    for total in min_size..=max_size_core {
        let params = runtime_params(total <= max_size_full);
        let bl = blocks(&mut trees, total, false, false);
        let mut work: Vec<(usize, u64, u64)> = vec![];
        for (bi, b) in bl.iter().enumerate() {
            let mut s = 0;
            while s < b.count {
                let e = (s + 64).min(b.count);
                work.push((bi, s, e));
                s = e;
            }
        }
        let results: Vec<Option<ChunkOut>> = vcommon::par_map(&work, vcommon::ncpu(), |wi, &(bi, s, e)| {
            if t0.elapsed().as_secs_f64() > wall_cap_s {
                return None;
            }
            let mut out = ChunkOut::default();
            for ix in s..e {
                let p = bl[bi].program(ix);
                let mut any = false;
                for (si, (_, script, ext)) in scripts.iter().enumerate() {
                    if !p.reachable_with(*ext) {
                        continue;
                    }
                    any = true;
                    for (pi, prm) in params.iter().enumerate() {
                        let cfg = runtime_cfg(&p, script, *prm);
                        if out.sample.is_none() && wi % 53 == 0 && si == 0 && pi == 0 && p.slots[V_SET].is_some() {
                            out.sample = Some(json!({"program": p.to_string(), "script": format!("{:?}", script), "lane_buf": prm.0, "mode": format!("{:?}", prm.1), "budget": prm.2}));
                        }
                        run_cfg(&p, cfg, &mut out, ix == s && si == 0 && pi == 0 && wi % 8 == 0);
                    }
                }
                if any {
                    out.programs += 1;
                    if (1..8).any(|sl| p.slots[sl].is_some()) {
                        out.nontrivial += 1;
                    }
                } else {
                    out.unreachable += 1;
                }
            }
            Some(out)
        });
        let mut size_programs = 0u64;
        let mut size_exec = 0u64;
        let mut skipped = 0usize;
        for r in results {
            match r {
                None => skipped += 1,
                Some(o) => {
                    size_programs += o.programs;
                    size_exec += o.executions;
                    tot.programs += o.programs;
                    tot.unreachable += o.unreachable;
                    tot.executions += o.executions;
                    tot.steps += o.steps;
                    tot.nontrivial += o.nontrivial;
                    digests.extend(o.digests);
                    for (sig, expl, cfg) in o.violations {
                        ctx.violation(name, &sig, json!({"cfg": serde_json::to_value(&cfg).unwrap(), "choices": [], "what": expl.lines().next().unwrap_or(""), "input": expl.lines().nth(1).unwrap_or(""), "explanation": expl}));
                    }
                    if !o.machinery.is_empty() {
                        eprintln!("machinery errors: {:?}", &o.machinery[..o.machinery.len().min(3)]);
                        vcommon::machinery_failure("C06 runtime grid: execution failed or was not deterministic (see above)");
                    }
                    if let Some(s) = o.sample {
                        if samples.len() < 3 {
                            samples.push(s);
                        }
                    }
                }
            }
        }
        per_size.push(json!({"total_size": total, "programs": size_programs, "executions": size_exec, "runtime_parameter_combinations": params.len(), "chunks_skipped_by_wall_cap": skipped}));
        eprintln!("[C06] {} size {}: programs={} executions={} skipped_chunks={} t={:.1}s", name, total, size_programs, size_exec, skipped, t0.elapsed().as_secs_f64());
        if skipped > 0 {
            capped = true;
            break;
        }
    }
    ctx.add_leg(Leg {
        name: name.into(),
        engine: "E4-programs".into(),
        states: tot.programs,
        transitions: tot.steps,
        evaluations: tot.executions,
        distinct_nontrivial: tot.nontrivial,
        rule: "every assignment of handler programs to root and the lane slots with the stated total size (lane slots need no triggering handler: the script commands the lanes) x every script that reaches its non-empty slots x runtime parameters, canonical schedule, compared with the reference interpreter (requests of one lane in order, order between lanes free, link/sync trigger nothing); non-trivial = programs with a non-empty lane lifecycle slot".into(),
        samples,
        exhaustive: !capped,
        bounds: json!({
            "scripts": scripts.iter().map(|(n, s, _)| json!({"name": n, "steps": format!("{:?}", s.iter().map(|x| &x.1).collect::<Vec<_>>())})).collect::<Vec<_>>(),
            "runtime_parameters_full": "lane_buf {8, 4096} x mode {Eager, Burst} x budget {2, 64}",
            "runtime_parameters_core": "lane_buf 8 x mode {Eager, Burst} x budget {2, 64}, plus lane_buf 4096 / Eager / 64",
            "min_total_size": min_size, "max_total_size_full_parameters": max_size_full, "max_total_size_core_parameters": max_size_core,
            "wall_cap_s": wall_cap_s, "wall_cap_hit": capped, "per_size": per_size,
            "assignments_not_reached_by_any_script": tot.unreachable, "distinct_observation_digests": digests.len(),
        }),
        wall_s: t0.elapsed().as_secs_f64(),
    });
}

/// Programs for the schedule leg: the `n` smallest programs (command cascades only) followed by the
/// first `deep` programs of size 4 in which at least two lane handlers with a body run nested.
fn e1_programs(n: usize, deep: usize) -> Vec<Program> {
    let mut trees = Trees::default();
    let mut out = vec![];
    'small: for total in 0..4 {
        for b in blocks(&mut trees, total, false, true) {
            for ix in 0..b.count {
                let p = b.program(ix);
                if p.reachable() {
                    out.push(p);
                    if out.len() >= n {
                        break 'small;
                    }
                }
            }
        }
    }
    let mut d = 0;
    'deep: for b in blocks(&mut trees, 4, false, true) {
        // spread over the blocks: at most a few per size distribution
        let mut per_block = 0;
        for ix in 0..b.count {
            let p = b.program(ix);
            if p.reachable() && refint::expected(&p, &[refint::RootEv::Cmd], None).nested_bodies >= 2 {
                out.push(p);
                d += 1;
                per_block += 1;
                if d >= deep {
                    break 'deep;
                }
                if per_block >= 2 {
                    break;
                }
            }
        }
    }
    out
}

fn main() {
    let ctx = Ctx::from_env("C06");
    set_checker(refint::checker);
    set_agent_factory(factory);
    if let Some(r) = ctx.replay_request() {
        if r["leg"].as_str() == Some("agent-alone") {
            for (sig, det) in alone::replay(&r["detail"]) {
                ctx.violation("replay", &sig, det);
            }
        } else {
            replay(&ctx, r);
        }
        ctx.finish("model_checking", "replay");
    }
    if let Ok(p) = std::env::var("C06_COUNT") {
        // debugging aid: size of the program space
        let mut trees = Trees::default();
        for total in 0..=p.parse::<usize>().unwrap_or(5) {
            let bl = blocks(&mut trees, total, std::env::var("C06_SS").is_ok(), std::env::var("C06_NOL0").is_err());
            let all: u64 = bl.iter().map(|b| b.count).sum();
            let reach: u64 = bl.iter().map(|b| (0..b.count).filter(|&i| b.program(i).reachable()).count() as u64).sum();
            eprintln!("size {}: blocks={} assignments={} reachable={}", total, bl.len(), all, reach);
            let mut by: std::collections::BTreeMap<(usize, usize, usize), u64> = Default::default();
            for b in &bl {
                let r = (0..b.count).filter(|&i| b.program(i).reachable()).count() as u64;
                *by.entry((b.sizes[ROOT], b.sizes[START], b.sizes[STOP])).or_default() += r;
            }
            eprintln!("   by (root,start,stop) sizes: {:?}", by);
        }
        std::process::exit(0);
    }
    if std::env::var("C06_REPRO").as_deref() == Ok("1") {
        // stand-alone reproduction of the first known finding: the command handler is `context.fail(..)`
        let mut p = Program::empty();
        p.slots[ROOT] = Some(H::Seq(Box::new(H::SetV(X::Lit(7))), Box::new(H::Seq(Box::new(H::Fail), Box::new(H::Eff(1))))));
        let rec = run_one::<AsWorld>(&cfg_for(&p, 2), &[], true).unwrap();
        println!("program: {}  script: two commands to lane c", p);
        for l in &rec.outcome.log {
            println!("{}", l);
        }
        println!("oracle: {:?}", rec.outcome.violations.iter().map(|v| &v.0).collect::<Vec<_>>());
        std::process::exit(0);
    }
    if std::env::var("C06_REPRO").as_deref() == Ok("2") {
        // stand-alone reproduction of the second known finding: a handler removes an absent key
        // from map lane m; afterwards the lane never emits an event again
        let mut p = Program::empty();
        p.slots[ROOT] = Some(H::Rem(2));
        let mut c = cfg_for(&p, 1);
        c.script = vec![(0usize, link("m")), (0, cmd("c", "go")), (0, cmd("m", "@update(key:1) 7"))];
        let rec = run_one::<AsWorld>(&c, &[], true).unwrap();
        println!("program: {}  script: {:?}", p, c.script);
        for l in &rec.outcome.log {
            println!("{}", l);
        }
        println!("oracle: {:?}", rec.outcome.violations.iter().map(|v| &v.0).collect::<Vec<_>>());
        std::process::exit(0);
    }
    let quick = ctx.quick();
    alone::run(&ctx);
    // (a grid worker process re-executes this binary only for its own schedule leg: skip the E4 legs there)
    if !vcommon::sched::is_worker() {
        // E4 (a): all ten slots
        run_e4(&ctx, if quick {
            E4Spec { name: "e4-all-slots", min_size: 0, max_size_1: 3, max_size_2: 3, wall_cap_s: 25.0, with_start_stop: true }
        } else {
            E4Spec { name: "e4-all-slots", min_size: 0, max_size_1: 4, max_size_2: 4, wall_cap_s: 300.0, with_start_stop: true }
        });
        // E4 (b): cascades started by commands (on_start / on_stop left empty), one size deeper
        run_e4(&ctx, if quick {
            E4Spec { name: "e4-command-cascades", min_size: 0, max_size_1: 4, max_size_2: 4, wall_cap_s: 25.0, with_start_stop: false }
        } else {
            E4Spec { name: "e4-command-cascades", min_size: 0, max_size_1: 5, max_size_2: 5, wall_cap_s: 330.0, with_start_stop: false }
        });
        run_e4_nested(&ctx, if quick { 20.0 } else { 120.0 });
        // E4 (a'): the same space (smaller bound) with a lifecycle that also requests a dynamic
        // lane from on_init: its callback is a handler that must not run before on_start is over
        INIT_DYN.store(true, std::sync::atomic::Ordering::Relaxed);
        run_e4(&ctx, if quick {
            E4Spec { name: "e4-init-dyn-lane", min_size: 0, max_size_1: 2, max_size_2: 0, wall_cap_s: 15.0, with_start_stop: true }
        } else {
            E4Spec { name: "e4-init-dyn-lane", min_size: 0, max_size_1: 3, max_size_2: 3, wall_cap_s: 120.0, with_start_stop: true }
        });
        INIT_DYN.store(false, std::sync::atomic::Ordering::Relaxed);
        if !quick {
            // the next size as far as the wall budget allows (reported as not exhaustive when capped)
            run_e4(&ctx, E4Spec { name: "e4-command-cascades-size6", min_size: 6, max_size_1: 6, max_size_2: 0, wall_cap_s: 240.0, with_start_stop: false });
        }
        // E4 (c): lane commands, link and sync requests, tiny lane -> runtime channels, burst delivery
        if quick {
            run_runtime_grid(&ctx, "e4-runtime-grid", 0, 2, 2, 20.0);
        } else {
            run_runtime_grid(&ctx, "e4-runtime-grid", 0, 3, 3, 120.0);
            // the next size on the core parameters as far as the wall budget allows
            run_runtime_grid(&ctx, "e4-runtime-grid-size4", 4, 3, 4, 150.0);
        }
    }
    // E1 (c): the same scripts under every schedule with one deviation, for a subset of programs
    {
        let mut trees = Trees::default();
        let mut ps: Vec<Program> = vec![];
        for total in 0..=2 {
            for b in blocks(&mut trees, total, false, false) {
                let stride = if total < 2 { 1 } else if quick { 5 } else { 9 };
                let mut ix = 0;
                while ix < b.count {
                    ps.push(b.program(ix));
                    ix += stride;
                }
            }
        }
        let mut cfgs = vec![];
        for p in &ps {
            for (_, script, ext) in runtime_scripts() {
                if p.reachable_with(ext) {
                    for prm in [(8usize, Mode::Burst, 64usize), (8, Mode::Eager, 2)] {
                        cfgs.push(runtime_cfg(p, &script, prm));
                    }
                }
            }
        }
        run_grid(&ctx, GridSpec { name: if quick { "e1-runtime-d1".into() } else { "e1-runtime-d2".into() }, cfgs, bound: if quick { 1 } else { 2 }, max_exec_per_cfg: 50_000, wall_cap_s: if quick { 12.0 } else { 150.0 } });
    }
    // E1: the smallest programs under every schedule with a bounded number of deviations; the
    // remote is linked to v, w and m so that the runtime is writing events while handlers run
    let progs = if quick { e1_programs(127, 20) } else { e1_programs(200, 60) };
    let e1_cfgs = |progs: &[Program], variants: &[(bool, usize)]| {
        let mut cfgs = vec![];
        for p in progs {
            for &(linked, budget) in variants {
                let mut c = cfg_for(p, if linked { 3 } else { 2 });
                if linked {
                    let mut script = vec![(0usize, link("v")), (0, link("w")), (0, link("m"))];
                    script.extend(c.script.clone());
                    c.script = script;
                }
                c.budget = budget;
                cfgs.push(c);
            }
        }
        cfgs
    };
    let all = [(false, 64usize), (true, 64), (true, 2)];
    if quick {
        run_grid(&ctx, GridSpec { name: "e1-schedules-d1".into(), cfgs: e1_cfgs(&progs, &all), bound: 1, max_exec_per_cfg: 50_000, wall_cap_s: 12.0 });
        // core sub-grid: a few of the smallest, the programs that suspend a handler (the order of the suspended
        // cascade relative to the next command is up to the schedule) and the deepest cascades
        let core: Vec<Program> = progs.iter().take(4).chain(progs.iter().take(127).filter(|p| p.contains(&|h| matches!(h, H::Suspend(..)))).take(12)).chain(progs.iter().skip(127).take(12)).cloned().collect();
        run_grid(&ctx, GridSpec { name: "e1-schedules-d2".into(), cfgs: e1_cfgs(&core, &[(true, 64)]), bound: 2, max_exec_per_cfg: 50_000, wall_cap_s: 14.0 });
    } else {
        run_grid(&ctx, GridSpec { name: "e1-schedules-d2".into(), cfgs: e1_cfgs(&progs, &all), bound: 2, max_exec_per_cfg: 50_000, wall_cap_s: 200.0 });
    }
    ctx.assume("tokio select! start index and HashMap iteration order are fixed per VERIF_SEED (deterministic interposer), not enumerated");
    ctx.assume("literals are unique per AST node (equal values arise only by repeating the command or through `y`)");
    ctx.finish(
        "model_checking",
        "bounded exhaustive enumeration of handler programs executed on the real agent implementation and runtime, compared with a reference interpreter of the documented depth-first semantics; plus deviation-bounded schedule exploration of the smallest programs",
    );
}

//! C06 - Event handlers run one at a time, depth-first, in the documented order.
//!
//! Engine E4: every handler program of a small grammar (smallest first) is executed by the REAL
//! agent implementation inside the REAL agent runtime (`AgentRouteTask::run_agent()` under the
//! controlled executor) and its recorded trace is compared with a reference interpreter of the
//! documented semantics. Engine E1: the smallest programs additionally under every schedule with a
//! bounded number of deviations from the canonical one.

mod agent;
mod prog;
mod refint;

use agent::{C6Agent, C6Lifecycle};
use asys::agent::TruthLog;
use asys::grid::{replay, run_grid, GridSpec};
use asys::scripts::cmd;
use asys::world::{set_agent_factory, set_checker, AsWorld, Cfg};
use prog::*;
use serde_json::json;
use std::collections::HashSet;
use std::sync::Arc;
use std::time::Instant;
use swimos::agent::agent_model::AgentModel;
use vcommon::sched::run_one;
use vcommon::{Ctx, Leg};

fn factory(cfg: &Cfg, log: Arc<TruthLog>) -> swimos_api::agent::BoxAgent {
    let prog: Program = serde_json::from_str(&cfg.extra).unwrap_or_else(|_| Program::empty());
    let lifecycle = C6Lifecycle { log, prog: Arc::new(prog) };
    Box::new(AgentModel::new(C6Agent::default, lifecycle.into_lifecycle()))
}

fn cfg_for(p: &Program, ncmds: usize) -> Cfg {
    let script = (0..ncmds).map(|_| (0usize, cmd("c", "go"))).collect();
    let mut c = Cfg::basic(script, 1);
    c.extra = serde_json::to_string(p).unwrap();
    c
}

#[derive(Default)]
struct ChunkOut {
    programs: u64,
    unreachable: u64,
    executions: u64,
    steps: u64,
    nontrivial: u64,
    failing: u64,
    suspending: u64,
    digests: Vec<u64>,
    violations: Vec<(String, String, Cfg)>,
    machinery: Vec<String>,
    sample: Option<serde_json::Value>,
}

/// Run one program on the canonical schedule with `ncmds` commands.
fn run_program(p: &Program, ncmds: usize, out: &mut ChunkOut, check_determinism: bool) {
    let cfg = cfg_for(p, ncmds);
    match run_one::<AsWorld>(&cfg, &[], false) {
        Ok(rec) => {
            out.executions += 1;
            out.steps += rec.choices.len() as u64;
            out.digests.push(rec.outcome.digest);
            if rec.horizon_hit {
                out.violations.push(("law=terminates (no quiescence within horizon)".into(), format!("program {}", p), cfg.clone()));
            }
            for (s, e) in rec.outcome.violations {
                out.violations.push((s, e, cfg.clone()));
            }
            if check_determinism {
                match run_one::<AsWorld>(&cfg, &[], false) {
                    Ok(r2) => {
                        out.executions += 1;
                        out.steps += r2.choices.len() as u64;
                        if r2.outcome.digest != rec.outcome.digest || r2.choices.len() != rec.choices.len() {
                            out.machinery.push(format!("nondeterminism: two canonical runs of {} differ", p));
                        }
                    }
                    Err(e) => out.machinery.push(e),
                }
            }
        }
        Err(e) => {
            if e.starts_with("panic:") {
                out.violations.push(("law=no_panic".into(), format!("program {}: {}", p, e), cfg));
            } else {
                out.machinery.push(e);
            }
        }
    }
}

struct E4Spec {
    name: &'static str,
    /// Largest total AST size run with the one-command script / the two-command script.
    max_size_1: usize,
    max_size_2: usize,
    wall_cap_s: f64,
    with_start_stop: bool,
}

fn run_e4(ctx: &Ctx, spec: E4Spec) {
    let t0 = Instant::now();
    let mut trees = Trees::default();
    let mut tot = ChunkOut::default();
    let mut digests: HashSet<u64> = HashSet::new();
    let mut per_size = vec![];
    let mut completed_size: i64 = -1;
    let mut capped = false;
    let mut samples = vec![];
    const CHUNK: u64 = 256;
    for total in 0..=spec.max_size_1 {
        let bl = blocks(&mut trees, total, spec.with_start_stop);
        let mut work: Vec<(usize, u64, u64)> = vec![];
        for (bi, b) in bl.iter().enumerate() {
            let mut s = 0;
            while s < b.count {
                let e = (s + CHUNK).min(b.count);
                work.push((bi, s, e));
                s = e;
            }
        }
        let two = total <= spec.max_size_2;
        let results: Vec<Option<ChunkOut>> = vcommon::par_map(&work, vcommon::ncpu(), |wi, &(bi, s, e)| {
            if t0.elapsed().as_secs_f64() > spec.wall_cap_s {
                return None;
            }
            let mut out = ChunkOut::default();
            for ix in s..e {
                let p = bl[bi].program(ix);
                if !p.reachable() {
                    out.unreachable += 1;
                    continue;
                }
                out.programs += 1;
                let r = refint::expected(&p, 1, None);
                if r.nested_bodies > 0 {
                    out.nontrivial += 1;
                }
                if p.contains(&|h| matches!(h, H::Fail)) {
                    out.failing += 1;
                }
                if p.contains(&|h| matches!(h, H::Suspend(..))) {
                    out.suspending += 1;
                }
                let det = ix == s && wi % 8 == 0;
                run_program(&p, 1, &mut out, det);
                if two {
                    run_program(&p, 2, &mut out, false);
                }
                if out.sample.is_none() && r.nested_bodies > 1 && wi % 97 == 0 {
                    out.sample = Some(json!({"program": p.to_string(), "reference_trace_one_command": r.trace}));
                }
            }
            Some(out)
        });
        let mut size_programs = 0u64;
        let mut size_exec = 0u64;
        let mut skipped = 0usize;
        for r in results {
            match r {
                None => skipped += 1,
                Some(o) => {
                    size_programs += o.programs;
                    size_exec += o.executions;
                    tot.programs += o.programs;
                    tot.unreachable += o.unreachable;
                    tot.executions += o.executions;
                    tot.steps += o.steps;
                    tot.nontrivial += o.nontrivial;
                    tot.failing += o.failing;
                    tot.suspending += o.suspending;
                    digests.extend(o.digests);
                    for (sig, expl, cfg) in o.violations {
                        ctx.violation(spec.name, &sig, json!({"cfg": serde_json::to_value(&cfg).unwrap(), "choices": [], "explanation": expl, "what": sig}));
                    }
                    if !o.machinery.is_empty() {
                        eprintln!("machinery errors: {:?}", &o.machinery[..o.machinery.len().min(3)]);
                        vcommon::machinery_failure("C06 E4: execution failed or was not deterministic (see above)");
                    }
                    if let Some(s) = o.sample {
                        if samples.len() < 3 {
                            samples.push(s);
                        }
                    }
                }
            }
        }
        per_size.push(json!({"total_size": total, "programs": size_programs, "executions": size_exec, "two_command_variant": two, "chunks_skipped_by_wall_cap": skipped}));
        eprintln!("[C06] {} size {}: programs={} executions={} skipped_chunks={} t={:.1}s", spec.name, total, size_programs, size_exec, skipped, t0.elapsed().as_secs_f64());
        if skipped > 0 {
            capped = true;
            break;
        }
        completed_size = total as i64;
    }
    ctx.add_leg(Leg {
        name: spec.name.into(),
        engine: "E4-programs".into(),
        states: tot.programs,
        transitions: tot.steps,
        evaluations: tot.executions,
        distinct_nontrivial: tot.nontrivial,
        rule: "every assignment of handler programs (grammar in bounds.grammar) to the 10 lifecycle slots with the stated total AST size, each executed by the real agent + runtime on the canonical schedule and compared entry by entry with the reference interpreter; states = distinct programs; non-trivial = programs in whose execution at least one lane lifecycle handler with a non-empty body runs nested inside another handler".into(),
        samples,
        exhaustive: !capped,
        bounds: json!({
            "grammar": "H ::= Eff | SetV x | SetW x | Upd k x | Rem k | Clr | GetV | GetW | GetM | (GetV|GetW|GetEntry 1) >>= \\y.H (and_then) | H;H (followed_by) | Fail | Suspend H (not nested); x ::= literal unique per node | y; k in {1,2}; a slot's handler may only modify lanes later in c < v < w < m",
            "slots": SLOTS,
            "size": "number of AST nodes summed over all slots (Seq, Bind and Suspend count 1)",
            "max_total_size_one_command": spec.max_size_1, "max_total_size_two_commands": spec.max_size_2,
            "largest_total_size_completed": completed_size, "wall_cap_s": spec.wall_cap_s, "wall_cap_hit": capped,
            "per_size": per_size, "programs_with_fail": tot.failing, "programs_with_suspend": tot.suspending,
            "assignments_skipped_as_unreachable_duplicates": tot.unreachable,
            "distinct_observation_digests": digests.len(),
        }),
        wall_s: t0.elapsed().as_secs_f64(),
    });
}

/// The n smallest reachable programs (enumeration order).
fn smallest(n: usize) -> Vec<Program> {
    let mut trees = Trees::default();
    let mut out = vec![];
    for total in 0..8 {
        for b in blocks(&mut trees, total, true) {
            for ix in 0..b.count {
                let p = b.program(ix);
                if p.reachable() {
                    out.push(p);
                    if out.len() >= n {
                        return out;
                    }
                }
            }
        }
    }
    out
}

fn main() {
    let ctx = Ctx::from_env("C06");
    set_checker(refint::checker);
    set_agent_factory(factory);
    if let Some(r) = ctx.replay_request() {
        replay(&ctx, r);
        ctx.finish("model_checking", "replay");
    }
    if let Ok(p) = std::env::var("C06_COUNT") {
        // debugging aid: size of the program space
        let mut trees = Trees::default();
        for total in 0..=p.parse::<usize>().unwrap_or(5) {
            let bl = blocks(&mut trees, total, std::env::var("C06_SS").is_ok());
            let all: u64 = bl.iter().map(|b| b.count).sum();
            let reach: u64 = bl.iter().map(|b| (0..b.count).filter(|&i| b.program(i).reachable()).count() as u64).sum();
            eprintln!("size {}: blocks={} assignments={} reachable={}", total, bl.len(), all, reach);
            let mut by: std::collections::BTreeMap<(usize, usize, usize), u64> = Default::default();
            for b in &bl {
                let r = (0..b.count).filter(|&i| b.program(i).reachable()).count() as u64;
                *by.entry((b.sizes[ROOT], b.sizes[START], b.sizes[STOP])).or_default() += r;
            }
            eprintln!("   by (root,start,stop) sizes: {:?}", by);
        }
        std::process::exit(0);
    }
    let quick = ctx.quick();
    run_e4(&ctx, if quick { E4Spec { name: "e4-programs", max_size_1: 4, max_size_2: 3, wall_cap_s: 40.0, with_start_stop: true } } else { E4Spec { name: "e4-programs", max_size_1: 6, max_size_2: 5, wall_cap_s: 780.0, with_start_stop: true } });
    // E1: the smallest programs under every schedule with a bounded number of deviations
    let n = if quick { 300 } else { 2000 };
    let mut cfgs = vec![];
    for p in smallest(n) {
        for ncmds in [1usize, 2] {
            for budget in [64usize, 2] {
                let mut c = cfg_for(&p, ncmds);
                c.budget = budget;
                cfgs.push(c);
            }
        }
    }
    run_grid(&ctx, GridSpec { name: "e1-schedules".into(), cfgs, bound: 2, max_exec_per_cfg: 50_000, wall_cap_s: if quick { 12.0 } else { 240.0 } });
    ctx.assume("tokio select! start index and HashMap iteration order are fixed per VERIF_SEED (deterministic interposer), not enumerated");
    ctx.assume("literals are unique per AST node (equal values arise only by repeating the command or through `y`)");
    ctx.finish(
        "model_checking",
        "bounded exhaustive enumeration of handler programs executed on the real agent implementation and runtime, compared with a reference interpreter of the documented depth-first semantics; plus deviation-bounded schedule exploration of the smallest programs",
    );
}

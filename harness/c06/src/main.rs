fn main() {
    vcommon::machinery_failure("C06: engine not built yet");
}

//! Leg `agent-alone` (E4): the agent (real `AgentModel`, derived lanes, the recording lifecycle of
//! `agent.rs`) run through the public `Agent::run` entry point against a *fake runtime* that the
//! harness plays: it hands out the lanes' byte channels and keeps the other ends. The real runtime
//! only ever tells the agent to stop by closing its request channels; a runtime that is going away
//! can just as well be noticed first through a *failed write* (it has dropped its end of a lane's
//! output channel while the request channels are still open) - an environment answer that the
//! real runtime produces only in a narrow window of its shutdown and that the whole-system legs
//! therefore never see. Here it is an ordinary step of the alphabet.
//!
//! Every script over {command to c, command to v, drop the output end of lane c / v / w / m, close
//! all request channels} up to a length bound x a few handler programs. Law: whenever the agent
//! task ends in an orderly way (`Ok(())`), `on_start` ran first, `on_stop` ran exactly once and
//! nothing but its own cascade ran after it (docs/lifecycle.md: "on_stop is the last event handler
//! run by an agent"); the task ends once every request channel is closed.

use crate::agent::{C6Agent, C6Lifecycle};
use crate::prog::*;
use asys::agent::{Truth, TruthLog};
use bytes::BytesMut;
use futures::future::{ready, BoxFuture};
use futures::{FutureExt, SinkExt};
use parking_lot::Mutex;
use serde_json::json;
use std::collections::HashMap;
use std::num::NonZeroUsize;
use std::sync::Arc;
use std::time::{Duration, Instant};
use swimos::agent::agent_model::AgentModel;
use swimos_agent_protocol::encoding::lane::RawValueLaneRequestEncoder;
use swimos_agent_protocol::LaneRequest;
use swimos_api::agent::{Agent, AgentConfig, AgentContext, DownlinkKind, HttpLaneRequestChannel, LaneConfig, StoreKind, WarpLaneKind};
use swimos_api::error::{AgentRuntimeError, DownlinkRuntimeError, OpenStoreError};
use swimos_utilities::byte_channel::{byte_channel, ByteReader, ByteWriter};
use swimos_utilities::routing::RouteUri;
use tokio_util::codec::FramedWrite;
use vcommon::{Ctx, Leg};

const LANES: [&str; 4] = ["c", "v", "w", "m"];

#[derive(Clone, Copy, Debug, PartialEq, Eq)]
pub enum AStep {
    /// a command to lane c ("go": runs the root slot of the program)
    Go,
    /// a command to lane v (sets it to 5)
    SetV,
    /// the runtime drops its end of the output channel of lane LANES[i]
    DropOut(usize),
    /// the runtime closes every request channel (how it normally stops an agent)
    CloseRequests,
}

impl AStep {
    fn name(&self) -> String {
        match self {
            AStep::Go => "cmd(c,go)".into(),
            AStep::SetV => "cmd(v,5)".into(),
            AStep::DropOut(i) => format!("drop-output({})", LANES[*i]),
            AStep::CloseRequests => "close-requests".into(),
        }
    }
    fn from_name(s: &str) -> Option<AStep> {
        alphabet().into_iter().find(|a| a.name() == s)
    }
}

fn alphabet() -> Vec<AStep> {
    vec![AStep::Go, AStep::SetV, AStep::DropOut(0), AStep::DropOut(1), AStep::DropOut(2), AStep::DropOut(3), AStep::CloseRequests]
}

fn programs() -> Vec<(&'static str, Program)> {
    let lit = |n: i32| X::Lit(n);
    let mut out = vec![];
    // go writes v and m (and, through v's handler, w)
    let mut p = Program::empty();
    p.slots[ROOT] = Some(H::Seq(Box::new(H::SetV(lit(1))), Box::new(H::Upd(1, lit(2)))));
    p.slots[V_SET] = Some(H::SetW(lit(3)));
    out.push(("go-writes-v-m-w", p));
    // go writes nothing, every callback only records
    let mut p = Program::empty();
    p.slots[ROOT] = Some(H::Eff(1));
    p.slots[STOP] = Some(H::Eff(2));
    out.push(("go-records-only", p));
    // on_stop itself writes lanes
    let mut p = Program::empty();
    p.slots[ROOT] = Some(H::SetW(lit(4)));
    p.slots[STOP] = Some(H::Seq(Box::new(H::SetV(lit(9))), Box::new(H::Clr)));
    p.slots[START] = Some(H::Upd(7, lit(7)));
    out.push(("start-and-stop-write", p));
    out
}

struct Ends {
    requests: Option<ByteWriter>,
    events: Option<ByteReader>,
}

#[derive(Default)]
struct Inner {
    lanes: HashMap<String, Ends>,
    commands: Option<ByteReader>,
}

#[derive(Clone, Default)]
struct FakeRuntime {
    inner: Arc<Mutex<Inner>>,
}

fn buf() -> NonZeroUsize {
    NonZeroUsize::new(4096).unwrap()
}

impl AgentContext for FakeRuntime {
    fn command_channel(&self) -> BoxFuture<'static, Result<ByteWriter, DownlinkRuntimeError>> {
        let (tx, rx) = byte_channel(buf());
        self.inner.lock().commands = Some(rx);
        ready(Ok(tx)).boxed()
    }

    fn add_lane(&self, name: &str, _lane_kind: WarpLaneKind, _config: LaneConfig) -> BoxFuture<'static, Result<(ByteWriter, ByteReader), AgentRuntimeError>> {
        let (tx_in, rx_in) = byte_channel(buf());
        let (tx_out, rx_out) = byte_channel(buf());
        self.inner.lock().lanes.insert(name.to_string(), Ends { requests: Some(tx_in), events: Some(rx_out) });
        ready(Ok((tx_out, rx_in))).boxed()
    }

    fn add_http_lane(&self, _name: &str) -> BoxFuture<'static, Result<HttpLaneRequestChannel, AgentRuntimeError>> {
        ready(Err(AgentRuntimeError::Terminated)).boxed()
    }

    fn open_downlink(&self, _host: Option<&str>, _node: &str, _lane: &str, _kind: DownlinkKind) -> BoxFuture<'static, Result<(ByteWriter, ByteReader), DownlinkRuntimeError>> {
        ready(Err(DownlinkRuntimeError::RuntimeError(AgentRuntimeError::Terminated))).boxed()
    }

    fn add_store(&self, _name: &str, _kind: StoreKind) -> BoxFuture<'static, Result<(ByteWriter, ByteReader), OpenStoreError>> {
        ready(Err(OpenStoreError::StoresNotSupported)).boxed()
    }
}

pub struct CaseResult {
    pub trace: Vec<String>,
    pub result: String,
    pub violations: Vec<(String, String)>,
}

async fn run_case(prog: &Program, script: &[AStep]) -> Result<CaseResult, String> {
    let log = Arc::new(TruthLog::default());
    let lifecycle = C6Lifecycle { log: log.clone(), prog: Arc::new(prog.clone()) };
    let model = AgentModel::new(C6Agent::default, lifecycle.into_lifecycle());
    let runtime = FakeRuntime::default();
    let config = AgentConfig { default_lane_config: Some(LaneConfig { transient: true, ..Default::default() }), ..Default::default() };
    let route = RouteUri::try_from("/alone").map_err(|e| format!("route: {:?}", e))?;
    let task = model.run(route, HashMap::new(), config, Box::new(runtime.clone())).await.map_err(|e| format!("the agent failed to initialise: {}", e))?;
    let mut task = tokio::spawn(task);
    let mut senders: HashMap<&'static str, FramedWrite<ByteWriter, RawValueLaneRequestEncoder>> = HashMap::new();
    for l in ["c", "v"] {
        let tx = runtime.inner.lock().lanes.get_mut(l).and_then(|e| e.requests.take()).ok_or_else(|| format!("lane {} was not registered", l))?;
        senders.insert(l, FramedWrite::new(tx, RawValueLaneRequestEncoder::default()));
    }
    let mut fault: Option<&'static str> = None;
    let mut done: Option<Result<Result<(), String>, String>> = None;
    for st in script {
        match st {
            AStep::Go | AStep::SetV => {
                let (lane, body) = if *st == AStep::Go { ("c", "go") } else { ("v", "5") };
                if let Some(s) = senders.get_mut(lane) {
                    // (a failed send means the agent is already gone: the step is a no-op)
                    let _ = s.send(LaneRequest::Command(BytesMut::from(body.as_bytes()))).await;
                }
            }
            AStep::DropOut(i) => {
                if let Some(e) = runtime.inner.lock().lanes.get_mut(LANES[*i]) {
                    e.events = None;
                }
                fault.get_or_insert("lane_output_dropped");
            }
            AStep::CloseRequests => {
                senders.clear();
                for e in runtime.inner.lock().lanes.values_mut() {
                    e.requests = None;
                }
                fault.get_or_insert("requests_closed");
            }
        }
        // let the agent run until it has nothing more to do (paused clock: the timeout elapses only
        // when every task is idle)
        if done.is_none() {
            if let Ok(r) = tokio::time::timeout(Duration::from_millis(100), &mut task).await {
                done = Some(r.map(|x| x.map_err(|e| e.to_string())).map_err(|e| format!("{}", e)));
            }
        }
    }
    let mut violations = vec![];
    if done.is_none() {
        senders.clear();
        for e in runtime.inner.lock().lanes.values_mut() {
            e.requests = None;
        }
        fault.get_or_insert("requests_closed");
        match tokio::time::timeout(Duration::from_secs(60), &mut task).await {
            Ok(r) => done = Some(r.map(|x| x.map_err(|e| e.to_string())).map_err(|e| format!("{}", e))),
            Err(_) => {
                task.abort();
                violations.push(("law=agent_stops_when_requests_close".to_string(), "every request channel was closed but the agent task did not end".to_string()));
            }
        }
    }
    let trace: Vec<String> = log.entries.lock().iter().filter_map(|(_, t)| if let Truth::Custom(s) = t { Some(s.clone()) } else { None }).collect();
    let result = match &done {
        Some(Ok(Ok(()))) => "Ok".to_string(),
        Some(Ok(Err(e))) => format!("Err({})", e),
        Some(Err(e)) => format!("panicked({})", e),
        None => "never".to_string(),
    };
    if let Some(Err(e)) = &done {
        violations.push(("law=no_panic".to_string(), format!("the agent task panicked: {}", e)));
    }
    if result == "Ok" {
        let f = fault.unwrap_or("none");
        if trace.first().map(String::as_str) != Some("start") {
            violations.push((format!("law=on_start_runs_first fault={}", f), format!("trace {:?}", trace)));
        }
        let stops: Vec<usize> = trace.iter().enumerate().filter(|(_, e)| e.as_str() == "stop").map(|(i, _)| i).collect();
        let ends_with_epilogue = trace.last().map(|e| e.starts_with("final(")).unwrap_or(false);
        let handler_after_stop = stops.first().map(|s| trace[*s + 1..].iter().any(|e| e.starts_with("cmd(") || e.starts_with("susp#") || e == "start")).unwrap_or(false);
        if stops.len() != 1 || !ends_with_epilogue || handler_after_stop {
            violations.push((
                format!("law=on_stop_runs_last_on_orderly_end fault={} stops={}", f, stops.len().min(2)),
                format!("the agent task ended with Ok(()) but on_stop ran {} times / was not the last handler; trace {:?}", stops.len(), trace),
            ));
        }
    }
    Ok(CaseResult { trace, result, violations })
}

pub fn run_one(prog: &Program, script: &[AStep]) -> Result<CaseResult, String> {
    let (prog, script) = (prog.clone(), script.to_vec());
    std::thread::spawn(move || {
        let rt = tokio::runtime::Builder::new_current_thread().enable_all().start_paused(true).build().map_err(|e| e.to_string())?;
        rt.block_on(run_case(&prog, &script))
    })
    .join()
    .unwrap_or_else(|_| Err("panic: the harness thread panicked".into()))
}

fn scripts(max_len: usize) -> Vec<Vec<AStep>> {
    let al = alphabet();
    let mut out: Vec<Vec<AStep>> = vec![vec![]];
    let mut layer: Vec<Vec<AStep>> = vec![vec![]];
    for _ in 0..max_len {
        let mut next = vec![];
        for s in &layer {
            for a in &al {
                // nothing can follow the closing of the request channels but output drops
                if s.contains(&AStep::CloseRequests) && !matches!(a, AStep::DropOut(_)) {
                    continue;
                }
                if let AStep::DropOut(_) = a {
                    if s.contains(a) {
                        continue;
                    }
                }
                let mut t = s.clone();
                t.push(*a);
                next.push(t);
            }
        }
        out.extend(next.iter().cloned());
        layer = next;
    }
    out
}

pub fn run(ctx: &Ctx) {
    if vcommon::sched::is_worker() {
        return;
    }
    let t0 = Instant::now();
    let progs = programs();
    let sc = scripts(if ctx.quick() { 3 } else { 5 });
    let cases: Vec<(usize, usize)> = (0..progs.len()).flat_map(|p| (0..sc.len()).map(move |s| (p, s))).collect();
    let results = vcommon::par_map(&cases, vcommon::ncpu(), |_, (p, s)| run_one(&progs[*p].1, &sc[*s]));
    let mut outcomes = std::collections::BTreeSet::new();
    let mut seen = std::collections::BTreeSet::new();
    let mut faulted_ok = 0u64;
    for ((p, s), r) in cases.iter().zip(results.iter()) {
        match r {
            Err(e) => vcommon::machinery_failure(&format!("agent-alone: {} (program {}, script {:?})", e, progs[*p].0, sc[*s])),
            Ok(c) => {
                outcomes.insert((c.result.clone(), c.trace.len()));
                if c.result == "Ok" && sc[*s].iter().any(|a| matches!(a, AStep::DropOut(_))) {
                    faulted_ok += 1;
                }
                for (sig, expl) in &c.violations {
                    if seen.insert(sig.clone()) {
                        let names: Vec<String> = sc[*s].iter().map(|a| a.name()).collect();
                        ctx.violation("agent-alone", sig, json!({"leg": "agent-alone", "program": progs[*p].0, "script": names, "trace": c.trace, "result": c.result, "explanation": expl, "what": expl}));
                    }
                }
            }
        }
    }
    let n = cases.len() as u64;
    ctx.add_leg(Leg {
        name: "agent-alone".into(),
        engine: "E4-enum".into(),
        states: n,
        transitions: cases.iter().map(|(_, s)| sc[*s].len() as u64 + 1).sum(),
        evaluations: n,
        distinct_nontrivial: faulted_ok,
        rule: "every script over {command to c, command to v, drop the runtime's end of a lane's output channel, close the request channels} up to the length bound x 3 handler programs, run on the real AgentModel against a fake runtime; non-trivial = the agent ended with Ok(()) in a run in which a lane output had been dropped".into(),
        samples: vec![json!({"program": progs[0].0, "script": ["drop-output(v)", "cmd(c,go)"]})],
        exhaustive: true,
        bounds: json!({"script_length": if ctx.quick() { 3 } else { 5 }, "programs": progs.len(), "distinct_outcomes": outcomes.len()}),
        wall_s: t0.elapsed().as_secs_f64(),
    });
}

pub fn replay(d: &serde_json::Value) -> Vec<(String, serde_json::Value)> {
    let name = d["program"].as_str().unwrap_or("");
    let progs = programs();
    let Some((_, prog)) = progs.iter().find(|(n, _)| *n == name) else { vcommon::machinery_failure("agent-alone replay: unknown program") };
    let script: Vec<AStep> = d["script"].as_array().map(|a| a.iter().filter_map(|x| x.as_str().and_then(AStep::from_name)).collect()).unwrap_or_default();
    match run_one(prog, &script) {
        Ok(c) => {
            println!("trace: {:?}\nresult: {}", c.trace, c.result);
            c.violations.into_iter().map(|(s, e)| (s, json!({"leg": "agent-alone", "program": name, "script": d["script"], "explanation": e}))).collect()
        }
        Err(e) => vcommon::machinery_failure(&e),
    }
}

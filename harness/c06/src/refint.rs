//! The oracle: a reference interpreter of handler programs implementing the documented
//! depth-first semantics (docs/event_handler.md, docs/lifecycle.md), and the comparison of its
//! trace with the trace recorded by the real agent.

use crate::prog::*;
use asys::agent::Truth;
use asys::oracle::{parse_map_event, MapEv};
use asys::world::{FrameKind, Observation, Step};
use std::collections::BTreeMap;

pub struct Expect {
    pub trace: Vec<String>,
    /// Some(cascade) if the agent must end with an error (a handler of that cascade failed).
    pub failed_in: Option<&'static str>,
    /// Deviations from the documented semantics that the comparison tolerated after reporting them.
    pub notes: Vec<(String, String)>,
    /// Lane lifecycle handlers with a non-empty body that ran (nested cascades).
    pub nested_bodies: u64,
    /// Removals of an absent key that a handler performed (no state change, nothing triggered).
    pub noop_removes: u64,
    /// Lane contents at the end of the expected execution.
    pub final_state: (i32, i32, BTreeMap<i32, i32>),
}

#[derive(Clone)]
struct Ref<'a> {
    p: &'a Program,
    v: i32,
    w: i32,
    m: BTreeMap<i32, i32>,
    out: Vec<String>,
    pending: Vec<(i32, H, i32)>,
    nested_bodies: u64,
    noop_removes: u64,
}

struct Failed;

/// What starts a cascade from outside: a command to lane c (runs the root handler) or a command
/// envelope addressed directly to lane v, w or m.
#[derive(Clone, Copy, Debug, PartialEq, Eq)]
pub enum RootEv {
    Cmd,
    ExtSetV(i32),
    ExtSetW(i32),
    ExtUpd(i32, i32),
    ExtRem(i32),
    ExtClr,
    /// `@drop(n)` / `@take(n)` addressed to the map lane: the designated entries are removed one
    /// by one in key order, each removal triggering on_remove like any other
    ExtDrop(u32),
    ExtTake(u32),
}

pub fn roots_of(script: &[(usize, Step)]) -> Vec<RootEv> {
    let mut out = vec![];
    for (_, s) in script {
        if let Step::Cmd(lane, body) = s {
            match lane.as_str() {
                "c" => out.push(RootEv::Cmd),
                "v" => out.push(RootEv::ExtSetV(body.trim().parse().unwrap_or(0))),
                "w" => out.push(RootEv::ExtSetW(body.trim().parse().unwrap_or(0))),
                "m" => match parse_map_event(body) {
                    Some(MapEv::Update(k, v)) => out.push(RootEv::ExtUpd(k, v)),
                    Some(MapEv::Remove(k)) => out.push(RootEv::ExtRem(k)),
                    Some(MapEv::Clear) => out.push(RootEv::ExtClr),
                    None => {
                        let b = body.trim();
                        let num = |pre: &str| b.strip_prefix(pre).and_then(|r| r.strip_suffix(')')).and_then(|n| n.trim().parse::<u32>().ok());
                        if let Some(n) = num("@drop(") {
                            out.push(RootEv::ExtDrop(n));
                        } else if let Some(n) = num("@take(") {
                            out.push(RootEv::ExtTake(n));
                        }
                    }
                },
                _ => {}
            }
        }
    }
    out
}

fn mapv(m: &BTreeMap<i32, i32>) -> Vec<(i32, i32)> {
    m.iter().map(|(k, v)| (*k, *v)).collect()
}

impl<'a> Ref<'a> {
    fn val(x: X, y: i32) -> i32 {
        match x {
            X::Lit(l) => l,
            X::Y => y,
        }
    }

    /// Run the body of a lifecycle slot (its entry has already been recorded by the caller).
    fn body(&mut self, slot: usize) -> Result<(), Failed> {
        match self.p.slots[slot].clone() {
            Some(h) => {
                if level(slot) > 0 {
                    self.nested_bodies += 1;
                }
                self.exec(&h, 0)
            }
            None => Ok(()),
        }
    }

    /// A handler changed a value lane: it is suspended, on_event(new) and then on_set(new, prev)
    /// run to completion, then it resumes.
    fn value_changed(&mut self, lane: &str, ev: usize, set: usize, new: i32, prev: i32) -> Result<(), Failed> {
        self.out.push(format!("{}.on_event(new={})", lane, new));
        self.body(ev)?;
        self.out.push(format!("{}.on_set(new={},prev={:?})", lane, new, Some(prev)));
        self.body(set)
    }

    fn exec(&mut self, h: &H, y: i32) -> Result<(), Failed> {
        match h {
            H::Eff(t) => self.out.push(format!("eff#{}", t)),
            H::SetV(x) => {
                let new = Self::val(*x, y);
                let prev = std::mem::replace(&mut self.v, new);
                self.value_changed("v", V_EV, V_SET, new, prev)?;
            }
            H::SetW(x) => {
                let new = Self::val(*x, y);
                let prev = std::mem::replace(&mut self.w, new);
                self.value_changed("w", W_EV, W_SET, new, prev)?;
            }
            H::Upd(k, x) => {
                let new = Self::val(*x, y);
                let prev = self.m.insert(*k, new);
                self.out.push(format!("m.on_update(k={},prev={:?},new={},map={:?})", k, prev, new, mapv(&self.m)));
                self.body(M_UPD)?;
            }
            H::Rem(k) => {
                // removing an absent key is not a state change: nothing is triggered
                if let Some(prev) = self.m.remove(k) {
                    self.out.push(format!("m.on_remove(k={},prev={},map={:?})", k, prev, mapv(&self.m)));
                    self.body(M_REM)?;
                } else {
                    self.noop_removes += 1;
                }
            }
            H::Clr => {
                let before = std::mem::take(&mut self.m);
                self.out.push(format!("m.on_clear(before={:?})", mapv(&before)));
                self.body(M_CLR)?;
            }
            H::GetV(t) => self.out.push(format!("getv#{}={}", t, self.v)),
            H::GetW(t) => self.out.push(format!("getw#{}={}", t, self.w)),
            H::GetM(t) => self.out.push(format!("getm#{}={:?}", t, mapv(&self.m))),
            H::Bind(t, g, b) => {
                let s = match g {
                    G::V => {
                        self.out.push(format!("bindv#{}={}", t, self.v));
                        self.v
                    }
                    G::W => {
                        self.out.push(format!("bindw#{}={}", t, self.w));
                        self.w
                    }
                    G::E => {
                        let e = self.m.get(&1).copied();
                        self.out.push(format!("binde#{}={:?}", t, e));
                        e.unwrap_or(-1)
                    }
                };
                self.exec(b, s)?;
            }
            H::Seq(a, b) | H::Then(a, b) => {
                self.exec(a, y)?;
                self.exec(b, y)?;
            }
            H::Fail => return Err(Failed),
            H::Suspend(t, b) => self.pending.push((*t, (**b).clone(), y)),
        }
        Ok(())
    }
}

impl RootEv {
    /// The lane whose (ordered) request channel carries this event: 0 = c, 1 = v, 2 = w, 3 = m.
    fn lane(&self) -> usize {
        match self {
            RootEv::Cmd => 0,
            RootEv::ExtSetV(_) => 1,
            RootEv::ExtSetW(_) => 2,
            _ => 3,
        }
    }
}

#[derive(Clone, Copy)]
enum Opt {
    Susp(usize),
    Root(usize),
}

struct Search<'a, 'o> {
    /// Per lane: (index in the script, event), in script order.
    queues: [Vec<(usize, RootEv)>; 4],
    obs: Option<(&'o [String], bool)>,
    found: Option<Expect>,
    /// Best failed candidate: (length of the common prefix with the observed trace, expectation).
    best: Option<(usize, Expect)>,
    nodes: usize,
    _p: std::marker::PhantomData<&'a ()>,
}

const NOTE_SIG: &str = "law=fail_ends_agent cascade=command got=agent_continues";
const NOTE_TXT: &str = "a handler of a cascade started by a command failed; the rest of the cascade was abandoned but the agent went on handling events instead of failing";

fn common_prefix(a: &[String], b: &[String]) -> usize {
    a.iter().zip(b.iter()).take_while(|(x, y)| x == y).count()
}

impl<'a, 'o> Search<'a, 'o> {
    fn finish(&mut self, r: Ref<'a>, failed_in: Option<&'static str>, notes: Vec<(String, String)>, complete: bool) {
        let e = Expect { final_state: (r.v, r.w, r.m.clone()), noop_removes: r.noop_removes, trace: r.out, failed_in, notes, nested_bodies: r.nested_bodies };
        match self.obs {
            None => self.found = Some(e),
            Some((o, _)) => {
                if complete && e.trace.as_slice() == o {
                    self.found = Some(e);
                } else {
                    let c = common_prefix(&e.trace, o);
                    if self.best.as_ref().map(|b| c > b.0).unwrap_or(true) {
                        self.best = Some((c, e));
                    }
                }
            }
        }
    }

    fn go(&mut self, r: Ref<'a>, pos: [usize; 4], notes: Vec<(String, String)>) {
        self.nodes += 1;
        if self.found.is_some() {
            return;
        }
        // what can run next: a pending suspended cascade, or the next request of any lane (requests of
        // one lane are handled in order; the order between lanes is up to the runtime)
        let mut opts: Vec<Opt> = vec![];
        let mut seen_tags = vec![];
        for (i, pnd) in r.pending.iter().enumerate() {
            if !seen_tags.contains(&pnd.0) {
                seen_tags.push(pnd.0);
                opts.push(Opt::Susp(i));
            }
        }
        let mut lanes: Vec<(usize, usize)> = (0..4).filter(|&l| pos[l] < self.queues[l].len()).map(|l| (self.queues[l][pos[l]].0, l)).collect();
        lanes.sort();
        opts.extend(lanes.into_iter().map(|(_, l)| Opt::Root(l)));
        if self.obs.is_none() || self.nodes > 50_000 {
            opts.truncate(1); // canonical order only
        }
        if opts.is_empty() {
            // on_stop runs last
            let mut r = r;
            r.out.push("stop".into());
            if r.body(STOP).is_err() {
                return self.finish(r, Some("on_stop"), notes, true);
            }
            r.out.push(format!("final(v={},w={},m={:?})", r.v, r.w, mapv(&r.m)));
            // (cascades suspended by on_stop itself never run: nothing runs after on_stop)
            return self.finish(r, None, notes, true);
        }
        for opt in opts {
            if self.found.is_some() {
                return;
            }
            let mut r2 = r.clone();
            let mut pos2 = pos;
            let mut notes2 = notes.clone();
            let (res, cascade) = match opt {
                Opt::Susp(ix) => {
                    let (t, h, y) = r2.pending.remove(ix);
                    r2.out.push(format!("susp#{}", t));
                    (r2.exec(&h, y), "suspended")
                }
                Opt::Root(l) => {
                    let ev = self.queues[l][pos[l]].1;
                    pos2[l] += 1;
                    let res = match ev {
                        RootEv::Cmd => {
                            r2.out.push("cmd(go)".into());
                            r2.body(ROOT)
                        }
                        RootEv::ExtSetV(x) => r2.exec(&H::SetV(X::Lit(x)), 0),
                        RootEv::ExtSetW(x) => r2.exec(&H::SetW(X::Lit(x)), 0),
                        RootEv::ExtUpd(k, x) => r2.exec(&H::Upd(k, X::Lit(x)), 0),
                        RootEv::ExtRem(k) => r2.exec(&H::Rem(k), 0),
                        RootEv::ExtClr => r2.exec(&H::Clr, 0),
                        RootEv::ExtDrop(n) | RootEv::ExtTake(n) => {
                            let keys: Vec<i32> = r2.m.keys().cloned().collect();
                            let n = (n as usize).min(keys.len());
                            let doomed: Vec<i32> = if matches!(ev, RootEv::ExtDrop(_)) { keys[..n].to_vec() } else { keys[n..].to_vec() };
                            let mut res = Ok(());
                            for k in doomed {
                                res = r2.exec(&H::Rem(k), 0);
                                if res.is_err() {
                                    break;
                                }
                            }
                            res
                        }
                    };
                    (res, "command")
                }
            };
            if let Some((o, ok)) = self.obs {
                if common_prefix(&r2.out, o) < r2.out.len() {
                    // this order is not what was observed
                    self.finish(r2, None, notes2, false);
                    continue;
                }
                if res.is_err() {
                    // documented: "Fail with an error. In this case all execution will stop and the agent will fail."
                    let continues = o.len() > r2.out.len() || ok;
                    if cascade == "command" && continues {
                        if notes2.is_empty() {
                            notes2.push((NOTE_SIG.to_string(), NOTE_TXT.to_string()));
                        }
                        self.go(r2, pos2, notes2);
                    } else {
                        self.finish(r2, Some(cascade), notes2, true);
                    }
                    continue;
                }
            } else if res.is_err() {
                self.finish(r2, Some(cascade), notes2, true);
                continue;
            }
            self.go(r2, pos2, notes2);
        }
    }
}

/// The expected trace. Where the documentation leaves the order open (when a suspended cascade
/// runs relative to later requests; the order in which requests addressed to different lanes are
/// taken up) the observed trace, if given, chooses among the legal orders: the result is a legal
/// execution equal to the observed one if there is any, else the legal execution sharing the
/// longest prefix with it. Link and sync requests trigger no lifecycle handler.
pub fn expected(p: &Program, roots: &[RootEv], observed: Option<(&[String], bool)>) -> Expect {
    let mut r = Ref { p, v: 0, w: 0, m: BTreeMap::new(), out: vec![], pending: vec![], nested_bodies: 0, noop_removes: 0 };
    let mut queues: [Vec<(usize, RootEv)>; 4] = Default::default();
    for (i, ev) in roots.iter().enumerate() {
        queues[ev.lane()].push((i, *ev));
    }
    let mut s = Search { queues, obs: observed, found: None, best: None, nodes: 0, _p: std::marker::PhantomData };
    // on_start runs before any other handler
    r.out.push("start".into());
    if r.body(START).is_err() {
        s.finish(r, Some("on_start"), vec![], true);
    } else {
        s.go(r, [0; 4], vec![]);
    }
    match (s.found, s.best) {
        (Some(e), _) => e,
        (None, Some((_, e))) => e,
        (None, None) => unreachable!("the search always produces a candidate"),
    }
}

/// The kind of a trace entry: its text up to the first of `(`, `#`, `=`.
pub fn kind(e: &str) -> &str {
    let end = e.find(|c| c == '(' || c == '#' || c == '=').unwrap_or(e.len());
    &e[..end]
}

/// Name of the argument in which two entries of the same kind first differ.
fn differing_field(a: &str, b: &str) -> String {
    let pos = a.bytes().zip(b.bytes()).position(|(x, y)| x != y).unwrap_or(a.len().min(b.len()));
    let upto = &a.as_bytes()[..pos.min(a.len())];
    // nearest preceding "name=" (or '#' for a tag)
    let mut i = upto.len();
    while i > 0 {
        i -= 1;
        if upto[i] == b'=' {
            let mut j = i;
            while j > 0 && (upto[j - 1].is_ascii_alphanumeric() || upto[j - 1] == b'_') {
                j -= 1;
            }
            let name = std::str::from_utf8(&upto[j..i]).unwrap_or("?");
            if name.chars().all(|c| c.is_ascii_digit()) {
                return "value".into();
            }
            return name.to_string();
        }
        if upto[i] == b'#' {
            return "tag".into();
        }
    }
    "?".into()
}

pub fn observed_trace(obs: &Observation) -> Vec<String> {
    obs.truth.iter().filter_map(|(_, t)| if let Truth::Custom(s) = t { Some(s.clone()) } else { None }).collect()
}

pub const INITDYN: &str = "INITDYN:";

pub fn checker(obs: &Observation) -> Vec<(String, String)> {
    if obs.cfg.extra.is_empty() {
        return vec![];
    }
    let (init_dyn, text) = match obs.cfg.extra.strip_prefix(INITDYN) {
        Some(t) => (true, t),
        None => (false, obs.cfg.extra.as_str()),
    };
    let prog: Program = match serde_json::from_str(text) {
        Ok(p) => p,
        Err(e) => return vec![("machinery: bad program".into(), e.to_string())],
    };
    let roots = roots_of(&obs.cfg.script);
    let mut got = observed_trace(obs);
    let mut early: Vec<(String, String)> = vec![];
    if init_dyn {
        // the callback of the lane requested from on_init is a handler like any other: it runs
        // once, after on_start has finished (i.e. after `start` and everything its cascade
        // recorded, which ends where the first command's entry begins); it is then taken out of
        // the trace that is compared with the reference
        let pos: Vec<usize> = got.iter().enumerate().filter(|(_, e)| e.starts_with("dynlane(")).map(|(i, _)| i).collect();
        let start = got.iter().position(|e| e == "start");
        let reached_start = start.is_some();
        let ended_ok = matches!(obs.result, Some(Ok(())));
        if pos.len() > 1 || (reached_start && ended_ok && pos.is_empty()) {
            early.push(("law=dynamic_lane_callback_runs_once".into(), format!("the callback of the lane requested from on_init ran {} times; trace {:?}", pos.len(), got)));
        }
        if let (Some(p), Some(s)) = (pos.first(), start) {
            if *p < s {
                early.push(("law=on_start_runs_first got=dynamic_lane_callback".into(), format!("the callback of the lane requested from on_init ran before on_start; trace {:?}", got)));
            }
        } else if let (Some(_), None) = (pos.first(), start) {
            early.push(("law=on_start_runs_first got=dynamic_lane_callback".into(), format!("the callback of the lane requested from on_init ran although on_start never did; trace {:?}", got)));
        }
        got.retain(|e| !e.starts_with("dynlane("));
    }
    let got_ok = matches!(obs.result, Some(Ok(())));
    let exp = expected(&prog, &roots, Some((&got, got_ok)));
    let mut out = early;
    let describe = |what: &str| {
        format!(
            "{}\nprogram: {}\nexpected trace: {:?}\nobserved trace: {:?}\nexpected result: {}\nobserved result: {:?}",
            what,
            prog,
            exp.trace,
            got,
            match exp.failed_in {
                Some(c) => format!("Err (a handler failed in the {} cascade)", c),
                None => "Ok".into(),
            },
            obs.result
        )
    };
    for (s, e) in &exp.notes {
        out.push((s.clone(), format!("{}\n(documented: the agent fails, i.e. the trace ends with the failing cascade and the agent task's result is Err; what follows describes the execution as the implementation continued it)", describe(e))));
    }
    // full trace
    let n = exp.trace.len().max(got.len());
    for i in 0..n {
        let e = exp.trace.get(i).map(|s| s.as_str());
        let g = got.get(i).map(|s| s.as_str());
        if e != g {
            let ek = e.map(kind).unwrap_or("<end>");
            let gk = g.map(kind).unwrap_or("<end>");
            let sig = if ek == gk {
                format!("law=trace at={} differ={}", ek, differing_field(e.unwrap(), g.unwrap()))
            } else {
                format!("law=trace exp={} got={}", ek, gk)
            };
            out.push((sig, describe(&format!("the recorded trace departs from the documented depth-first order at entry {}: expected {:?}, observed {:?}", i, e, g))));
            break;
        }
    }
    // result of the agent task (judged only when the trace is a legal one: after a divergence the
    // reference execution it is compared with is only the closest legal one, not the intended one)
    let trace_ok = exp.trace == got;
    match (&exp.failed_in, &obs.result) {
        _ if !trace_ok => {}
        (Some(c), Some(Ok(()))) => out.push((format!("law=agent_result exp=Err got=Ok cascade={}", c), describe("a handler failed but the agent task ended cleanly"))),
        (None, Some(Err(e))) => out.push(("law=agent_result exp=Ok got=Err".to_string(), describe(&format!("no handler failed but the agent task ended with {}", e)))),
        (_, None) => out.push(("law=agent_result got=never_completed".to_string(), describe("the agent task never completed"))),
        _ => {}
    }
    // what a linked remote saw: the last event of each lane is the lane's final content (only for
    // executions in which no handler failed: the property says nothing about the uplinks of an agent
    // that should have failed)
    if out.is_empty() && exp.notes.is_empty() && exp.failed_in.is_none() {
        if let Some(r) = obs.remotes.first() {
            let first_cmd = r.sent.iter().find(|(_, s)| matches!(s, Step::Cmd(..))).map(|(st, _)| *st).unwrap_or(0);
            let linked = |lane: &str| {
                r.sent.iter().any(|(st, s)| *st < first_cmd && matches!(s, Step::Link(l) if l == lane)) && !r.sent.iter().any(|(_, s)| matches!(s, Step::Sync(l) | Step::Unlink(l) if l == lane))
            };
            for (lane, want) in [("v", exp.final_state.0), ("w", exp.final_state.1)] {
                if linked(lane) {
                    let last = r.frames.iter().filter(|f| f.lane == lane && f.kind == FrameKind::Event).last().map(|f| String::from_utf8_lossy(&f.body).trim().to_string());
                    let seen = last.as_deref().map(|b| b.parse::<i32>().ok()).unwrap_or(Some(0));
                    if seen != Some(want) {
                        out.push((format!("law=final_state lane={} seen_by=remote", lane), describe(&format!("the last event a linked remote received on lane {} is {:?}, the lane's final value is {}", lane, last, want))));
                    }
                }
            }
            if linked("m") {
                let mut rep: BTreeMap<i32, i32> = BTreeMap::new();
                let mut bad = None;
                for f in r.frames.iter().filter(|f| f.lane == "m" && f.kind == FrameKind::Event) {
                    let b = String::from_utf8_lossy(&f.body).to_string();
                    match parse_map_event(&b) {
                        Some(MapEv::Update(k, v)) => {
                            rep.insert(k, v);
                        }
                        Some(MapEv::Remove(k)) => {
                            rep.remove(&k);
                        }
                        Some(MapEv::Clear) => rep.clear(),
                        None => bad = Some(b),
                    }
                }
                if bad.is_some() || rep != exp.final_state.2 {
                    let sig = if exp.noop_removes > 0 { "law=final_state lane=m seen_by=remote after=handler_removed_absent_key" } else { "law=final_state lane=m seen_by=remote" };
                    out.push((sig.to_string(), describe(&format!("folding the events a linked remote received on lane m gives {:?} (undecodable: {:?}), the lane's final content is {:?}", rep, bad, exp.final_state.2))));
                }
            }
        }
    }
    out
}

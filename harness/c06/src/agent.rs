//! The agent under test: lanes c < v < w < m declared with the repository's derive macros and a
//! lifecycle whose every callback (1) records that it ran and with which arguments and (2) runs
//! the handler program assigned to its slot, compiled at run time to a boxed event handler built
//! only from the public combinators.

use crate::prog::*;
use asys::agent::{Truth, TruthLog};
use std::collections::HashMap;
use std::sync::Arc;
use swimos::agent::{
    agent_lifecycle::HandlerContext,
    event_handler::{EventHandler, HandlerActionExt},
    lanes::{CommandLane, MapLane, ValueLane},
    lifecycle, projections, AgentLaneModel,
};

#[projections]
#[derive(AgentLaneModel)]
pub struct C6Agent {
    c: CommandLane<String>,
    v: ValueLane<i32>,
    /// the external names of these two lanes differ from their field names: the lifecycle is
    /// labelled with the field names, the runtime addresses the lanes by `w` and `m`
    #[item(name = "w")]
    w_lane: ValueLane<i32>,
    #[item(name = "m")]
    map_lane: MapLane<i32, i32>,
}

pub type BoxH = Box<dyn EventHandler<C6Agent> + Send>;
type Cx = HandlerContext<C6Agent>;

pub fn sorted(m: &HashMap<i32, i32>) -> Vec<(i32, i32)> {
    let mut v: Vec<(i32, i32)> = m.iter().map(|(k, v)| (*k, *v)).collect();
    v.sort();
    v
}

fn rec(log: &Arc<TruthLog>, s: String) {
    log.push(Truth::Custom(s));
}

fn val(x: X, y: i32) -> i32 {
    match x {
        X::Lit(l) => l,
        X::Y => y,
    }
}

/// Compile a handler program to an event handler. `y` is the value bound by the innermost `Bind`.
pub fn compile(cx: Cx, log: &Arc<TruthLog>, h: &H, y: i32) -> BoxH {
    match h {
        H::Eff(t) => {
            let (log, t) = (log.clone(), *t);
            Box::new(cx.effect(move || rec(&log, format!("eff#{}", t))))
        }
        H::SetV(x) => Box::new(cx.set_value(C6Agent::V, val(*x, y))),
        H::SetW(x) => Box::new(cx.set_value(C6Agent::W_LANE, val(*x, y))),
        H::Upd(k, x) => Box::new(cx.update(C6Agent::MAP_LANE, *k, val(*x, y))),
        H::Rem(k) => Box::new(cx.remove(C6Agent::MAP_LANE, *k)),
        H::Clr => Box::new(cx.clear(C6Agent::MAP_LANE)),
        H::GetV(t) => {
            let (log, t) = (log.clone(), *t);
            Box::new(cx.get_value(C6Agent::V).and_then(move |s: i32| cx.effect(move || rec(&log, format!("getv#{}={}", t, s)))))
        }
        H::GetW(t) => {
            let (log, t) = (log.clone(), *t);
            Box::new(cx.get_value(C6Agent::W_LANE).map(move |s: i32| rec(&log, format!("getw#{}={}", t, s))))
        }
        H::GetM(t) => {
            let (log, t) = (log.clone(), *t);
            Box::new(cx.get_map(C6Agent::MAP_LANE).and_then(move |s: HashMap<i32, i32>| cx.effect(move || rec(&log, format!("getm#{}={:?}", t, sorted(&s))))))
        }
        H::Bind(t, g, body) => {
            let (log, t, body) = (log.clone(), *t, body.clone());
            match g {
                G::V => Box::new(cx.get_value(C6Agent::V).and_then(move |s: i32| {
                    let l = log.clone();
                    cx.effect(move || rec(&l, format!("bindv#{}={}", t, s))).followed_by(compile(cx, &log, &body, s))
                })),
                G::W => Box::new(cx.get_value(C6Agent::W_LANE).and_then(move |s: i32| {
                    let l = log.clone();
                    cx.effect(move || rec(&l, format!("bindw#{}={}", t, s))).followed_by(compile(cx, &log, &body, s))
                })),
                G::E => Box::new(cx.get_entry(C6Agent::MAP_LANE, 1).and_then(move |s: Option<i32>| {
                    let l = log.clone();
                    cx.effect(move || rec(&l, format!("binde#{}={:?}", t, s))).followed_by(compile(cx, &log, &body, s.unwrap_or(-1)))
                })),
            }
        }
        H::Seq(a, b) => Box::new(compile(cx, log, a, y).followed_by(compile(cx, log, b, y))),
        H::Then(a, b) => {
            let (log2, b) = (log.clone(), b.clone());
            Box::new(compile(cx, log, a, y).and_then(move |_: ()| compile(cx, &log2, &b, y)))
        }
        H::Fail => Box::new(cx.fail::<(), _>(std::io::Error::new(std::io::ErrorKind::Other, "requested failure"))),
        H::Suspend(t, body) => {
            let (log, t, body) = (log.clone(), *t, body.clone());
            Box::new(cx.suspend(async move {
                let l = log.clone();
                cx.effect(move || rec(&l, format!("susp#{}", t))).followed_by(compile(cx, &log, &body, y))
            }))
        }
    }
}

#[derive(Clone)]
pub struct C6Lifecycle {
    pub log: Arc<TruthLog>,
    pub prog: Arc<Program>,
}

impl C6Lifecycle {
    /// The handler of a slot: first record the entry, then run the slot's program (if any).
    fn slot(&self, cx: Cx, slot: usize, entry: String) -> BoxH {
        let log = self.log.clone();
        let first = cx.effect(move || rec(&log, entry));
        match self.prog.slots.get(slot).and_then(|s| s.as_ref()) {
            Some(h) => Box::new(first.followed_by(compile(cx, &self.log, h, 0))),
            None => Box::new(first),
        }
    }
}

#[lifecycle(C6Agent)]
impl C6Lifecycle {
    #[on_start]
    pub fn on_start(&self, context: HandlerContext<C6Agent>) -> impl EventHandler<C6Agent> {
        self.slot(context, START, "start".to_string())
    }

    #[on_stop]
    pub fn on_stop(&self, context: HandlerContext<C6Agent>) -> impl EventHandler<C6Agent> {
        let log = self.log.clone();
        let epilogue = context.get_value(C6Agent::V).and_then(move |v: i32| {
            context.get_value(C6Agent::W_LANE).and_then(move |w: i32| {
                context.get_map(C6Agent::MAP_LANE).and_then(move |m: HashMap<i32, i32>| context.effect(move || rec(&log, format!("final(v={},w={},m={:?})", v, w, sorted(&m)))))
            })
        });
        self.slot(context, STOP, "stop".to_string()).followed_by(epilogue)
    }

    #[on_command(c)]
    pub fn on_command_c(&self, context: HandlerContext<C6Agent>, value: &String) -> impl EventHandler<C6Agent> {
        self.slot(context, ROOT, format!("cmd({})", value))
    }

    #[on_event(v)]
    pub fn on_event_v(&self, context: HandlerContext<C6Agent>, new: &i32) -> impl EventHandler<C6Agent> {
        self.slot(context, V_EV, format!("v.on_event(new={})", new))
    }

    #[on_set(v)]
    pub fn on_set_v(&self, context: HandlerContext<C6Agent>, new: &i32, prev: Option<i32>) -> impl EventHandler<C6Agent> {
        self.slot(context, V_SET, format!("v.on_set(new={},prev={:?})", new, prev))
    }

    #[on_event(w_lane)]
    pub fn on_event_w(&self, context: HandlerContext<C6Agent>, new: &i32) -> impl EventHandler<C6Agent> {
        self.slot(context, W_EV, format!("w.on_event(new={})", new))
    }

    #[on_set(w_lane)]
    pub fn on_set_w(&self, context: HandlerContext<C6Agent>, new: &i32, prev: Option<i32>) -> impl EventHandler<C6Agent> {
        self.slot(context, W_SET, format!("w.on_set(new={},prev={:?})", new, prev))
    }

    #[on_update(map_lane)]
    pub fn on_update_m(&self, context: HandlerContext<C6Agent>, map: &HashMap<i32, i32>, key: i32, prev: Option<i32>, new: &i32) -> impl EventHandler<C6Agent> {
        self.slot(context, M_UPD, format!("m.on_update(k={},prev={:?},new={},map={:?})", key, prev, new, sorted(map)))
    }

    #[on_remove(map_lane)]
    pub fn on_remove_m(&self, context: HandlerContext<C6Agent>, map: &HashMap<i32, i32>, key: i32, prev: i32) -> impl EventHandler<C6Agent> {
        self.slot(context, M_REM, format!("m.on_remove(k={},prev={},map={:?})", key, prev, sorted(map)))
    }

    #[on_clear(map_lane)]
    pub fn on_clear_m(&self, context: HandlerContext<C6Agent>, before: HashMap<i32, i32>) -> impl EventHandler<C6Agent> {
        self.slot(context, M_CLR, format!("m.on_clear(before={:?})", sorted(&before)))
    }
}


// ---------------------------------------------------------------------------------------------
// a lifecycle that asks for a dynamic lane from `on_init`
// ---------------------------------------------------------------------------------------------

use swimos::agent::agent_lifecycle::{item_event::ItemEvent, on_init::OnInit, on_start::OnStart, on_stop::OnStop, on_timer::OnTimer};
use swimos::agent::event_handler::{ActionContext, HandlerAction};
use swimos_agent::AgentMetadata;

/// Wraps a lifecycle and, in `on_init` (which is not an event handler), requests a dynamic value
/// lane whose completion callback records `dynlane(..)`: the callback is an event handler like
/// any other and must not run before `on_start` has finished.
#[derive(Clone)]
pub struct InitDyn<L> {
    pub inner: L,
    pub log: Arc<TruthLog>,
}

impl<L: OnInit<C6Agent>> OnInit<C6Agent> for InitDyn<L> {
    fn initialize(&self, action_context: &mut ActionContext<C6Agent>, meta: AgentMetadata, context: &C6Agent) {
        self.inner.initialize(action_context, meta, context);
        let hc: HandlerContext<C6Agent> = Default::default();
        let log = self.log.clone();
        let mut open = hc.open_value_lane("dyn", move |result| hc.effect(move || rec(&log, format!("dynlane(ok={})", result.is_ok()))));
        let _ = open.step(action_context, meta, context);
    }
}

impl<L: OnStart<C6Agent>> OnStart<C6Agent> for InitDyn<L> {
    fn on_start(&self) -> impl EventHandler<C6Agent> + '_ {
        self.inner.on_start()
    }
}

impl<L: OnStop<C6Agent>> OnStop<C6Agent> for InitDyn<L> {
    fn on_stop(&self) -> impl EventHandler<C6Agent> + '_ {
        self.inner.on_stop()
    }
}

impl<L: OnTimer<C6Agent>> OnTimer<C6Agent> for InitDyn<L> {
    fn on_timer(&self, timer_id: u64) -> impl EventHandler<C6Agent> + '_ {
        self.inner.on_timer(timer_id)
    }
}

impl<L: ItemEvent<C6Agent>> ItemEvent<C6Agent> for InitDyn<L> {
    type ItemEventHandler<'a> = L::ItemEventHandler<'a> where Self: 'a;

    fn item_event<'a>(&'a self, context: &C6Agent, item_name: &'a str) -> Option<Self::ItemEventHandler<'a>> {
        self.inner.item_event(context, item_name)
    }
}

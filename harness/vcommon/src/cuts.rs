//! Enumeration of chunkings of a byte string (the explored nondeterminism of the resumable
//! decoders: one deviation = one more cut).

/// All chunkings of a buffer of length `n` with at most `max_cuts` cuts (0, 1 or 2), 2-cuts only
/// when `n <= two_cut_limit`, plus the all-singletons chunking. Each chunking is the sorted list
/// of cut positions in `1..n`.
pub fn chunkings(n: usize, max_cuts: usize, two_cut_limit: usize) -> Vec<Vec<usize>> {
    let mut out = vec![vec![]];
    if n < 2 {
        return out;
    }
    if max_cuts >= 1 {
        for i in 1..n {
            out.push(vec![i]);
        }
    }
    if max_cuts >= 2 && n <= two_cut_limit {
        for i in 1..n {
            for j in (i + 1)..n {
                out.push(vec![i, j]);
            }
        }
    }
    if max_cuts >= 3 && n <= two_cut_limit / 2 {
        for i in 1..n {
            for j in (i + 1)..n {
                for k in (j + 1)..n {
                    out.push(vec![i, j, k]);
                }
            }
        }
    }
    out.push((1..n).collect());
    out
}

/// Split `data` at the given cut positions.
pub fn split<'a>(data: &'a [u8], cuts: &[usize]) -> Vec<&'a [u8]> {
    let mut out = Vec::with_capacity(cuts.len() + 1);
    let mut prev = 0;
    for &c in cuts {
        out.push(&data[prev..c]);
        prev = c;
    }
    out.push(&data[prev..]);
    out
}

//! Explicit-state breadth-first search over a real component (engine E2).
//!
//! A state is whatever the harness wants (usually the real object, cloned, or the operation
//! history that rebuilds it). The search is level-synchronous: successors of a level are computed
//! in parallel, de-duplicated by canonical key sequentially, and the per-step oracle (the `Err`
//! of `step`) plus the state invariant are evaluated for every transition / state.

use std::collections::HashSet;
use std::hash::Hash;

pub struct SearchStats<Op> {
    pub states: u64,
    pub transitions: u64,
    pub depth_reached: usize,
    /// True iff the frontier became empty (true fixpoint) before `max_depth` / `max_states`.
    pub fixpoint: bool,
    pub capped: bool,
    /// Violations (operation history, explanation), at most one per distinct explanation and at
    /// most 32; violating states are not expanded, the search continues elsewhere.
    pub violations: Vec<(Vec<Op>, String)>,
    pub sample_paths: Vec<Vec<Op>>,
}

pub struct Node<S, Op> {
    pub state: S,
    pub path: Vec<Op>,
}

/// `step` returns `Err(explanation)` when the per-transition oracle fails.
/// `invariant` is evaluated on every new state.
pub fn bfs<S, Op, K>(
    init: S,
    enabled: impl Fn(&S) -> Vec<Op> + Sync,
    step: impl Fn(&S, &Op) -> Result<S, String> + Sync,
    key: impl Fn(&S) -> K + Sync,
    invariant: impl Fn(&S) -> Result<(), String> + Sync,
    max_depth: usize,
    max_states: u64,
    threads: usize,
) -> SearchStats<Op>
where
    S: Send + Sync,
    Op: Clone + Send + Sync,
    K: Hash + Eq + Send,
{
    bfs_classified(init, enabled, step, key, invariant, |m| m.to_string(), max_depth, max_states, threads)
}

/// As `bfs`, keeping one (the first, i.e. shortest) violation per *class* of explanation
/// (`classify` maps an explanation to its class, e.g. the law it names) and at most 256 classes.
pub fn bfs_classified<S, Op, K>(
    init: S,
    enabled: impl Fn(&S) -> Vec<Op> + Sync,
    step: impl Fn(&S, &Op) -> Result<S, String> + Sync,
    key: impl Fn(&S) -> K + Sync,
    invariant: impl Fn(&S) -> Result<(), String> + Sync,
    classify: impl Fn(&str) -> String,
    max_depth: usize,
    max_states: u64,
    threads: usize,
) -> SearchStats<Op>
where
    S: Send + Sync,
    Op: Clone + Send + Sync,
    K: Hash + Eq + Send,
{
    let mut seen: HashSet<K> = HashSet::new();
    let mut stats = SearchStats {
        states: 0,
        transitions: 0,
        depth_reached: 0,
        fixpoint: false,
        capped: false,
        violations: vec![],
        sample_paths: vec![],
    };
    if let Err(e) = invariant(&init) {
        stats.violations.push((vec![], e));
        return stats;
    }
    seen.insert(key(&init));
    stats.states = 1;
    let mut frontier = vec![Node { state: init, path: vec![] }];
    let mut depth = 0;
    while !frontier.is_empty() {
        if depth >= max_depth {
            return stats;
        }
        depth += 1;
        // expand in parallel
        let results = crate::par_map(&frontier, threads, |_, node| {
            let mut succ: Vec<Result<(K, Node<S, Op>), (Vec<Op>, String)>> = vec![];
            for op in enabled(&node.state) {
                let mut path = node.path.clone();
                path.push(op.clone());
                match step(&node.state, &op) {
                    Ok(s2) => match invariant(&s2) {
                        Ok(()) => succ.push(Ok((key(&s2), Node { state: s2, path }))),
                        Err(e) => succ.push(Err((path, e))),
                    },
                    Err(e) => succ.push(Err((path, e))),
                }
            }
            succ
        });
        let mut next = vec![];
        for succ in results {
            for r in succ {
                stats.transitions += 1;
                match r {
                    Ok((k, node)) => {
                        if seen.insert(k) {
                            stats.states += 1;
                            if stats.sample_paths.len() < 3 && node.path.len() >= 3 {
                                stats.sample_paths.push(node.path.clone());
                            }
                            next.push(node);
                        }
                    }
                    Err(v) => {
                        let class = classify(&v.1);
                        if stats.violations.len() < 256 && !stats.violations.iter().any(|x| classify(&x.1) == class) {
                            stats.violations.push(v);
                        }
                    }
                }
            }
        }
        stats.depth_reached = depth;
        if stats.states >= max_states {
            stats.capped = true;
            return stats;
        }
        frontier = next;
    }
    stats.fixpoint = true;
    stats
}

//! Shared machinery for the swim-rust model-checking harness:
//! run context / evidence / violation reporting (`Ctx`, `Leg`), the deviation-bounded
//! schedule explorer (`sched`), the explicit-state search driver (`space`) and the
//! chunking enumerator (`cuts`).

pub mod cuts;
pub mod sched;
pub mod space;

use serde_json::{json, Map, Value};
use std::collections::BTreeMap;
use std::path::PathBuf;
use std::sync::Mutex;
use std::time::Instant;

#[derive(Clone, Copy, PartialEq, Eq, Debug)]
pub enum Tier {
    Quick,
    Thorough,
}

impl Tier {
    pub fn name(self) -> &'static str {
        match self {
            Tier::Quick => "quick",
            Tier::Thorough => "thorough",
        }
    }
    pub fn pick<T>(self, quick: T, thorough: T) -> T {
        match self {
            Tier::Quick => quick,
            Tier::Thorough => thorough,
        }
    }
}

/// One exploration leg of a property check (one engine run with its own bound).
#[derive(Clone, Debug, Default)]
pub struct Leg {
    pub name: String,
    pub engine: String,
    /// Distinct canonical states (E2) / distinct end-of-run observation digests (E1) /
    /// distinct inputs (E4).
    pub states: u64,
    /// Transitions / events / decoder calls executed on the implementation.
    pub transitions: u64,
    /// Executions / cases run.
    pub evaluations: u64,
    /// Distinct non-trivial cases by `rule`.
    pub distinct_nontrivial: u64,
    pub rule: String,
    pub samples: Vec<Value>,
    /// True when the stated finite space was enumerated completely (no cap hit).
    pub exhaustive: bool,
    /// Free-form description of the bounds that were completed.
    pub bounds: Value,
    pub wall_s: f64,
}

#[derive(Clone, Debug)]
struct Known {
    signature: String,
    what: String,
}

pub struct Ctx {
    pub id: String,
    pub tier: Tier,
    pub seed: u64,
    pub root: PathBuf,
    replay: Option<Value>,
    start: Instant,
    known: Vec<Known>,
    violations: Mutex<BTreeMap<String, Value>>,
    legs: Mutex<Vec<Leg>>,
    assumptions: Mutex<Vec<String>>,
}

const MAX_RECORDED_VIOLATIONS: usize = 100000;

fn verif_root() -> PathBuf {
    if let Ok(r) = std::env::var("VERIF_ROOT") {
        return PathBuf::from(r);
    }
    // harness/vcommon -> harness -> /verif
    let p = PathBuf::from(env!("CARGO_MANIFEST_DIR"));
    p.parent().and_then(|p| p.parent()).map(|p| p.to_path_buf()).unwrap_or_else(|| PathBuf::from("/verif"))
}

pub fn machinery_failure(msg: &str) -> ! {
    eprintln!("MACHINERY-FAILURE: {}", msg);
    std::process::exit(2)
}

impl Ctx {
    /// Build the context from the process arguments / environment.
    /// Arguments: `--tier quick|thorough`, `--replay <file>`.
    /// Environment: `VERIF_TIER`, `VERIF_SEED`, `VERIF_ROOT`.
    pub fn from_env(id: &str) -> Ctx {
        let args: Vec<String> = std::env::args().collect();
        let mut tier = match std::env::var("VERIF_TIER").as_deref() {
            Ok("thorough") => Tier::Thorough,
            _ => Tier::Quick,
        };
        let mut replay = None;
        let mut i = 1;
        while i < args.len() {
            match args[i].as_str() {
                "--tier" => {
                    i += 1;
                    tier = match args.get(i).map(|s| s.as_str()) {
                        Some("thorough") => Tier::Thorough,
                        Some("quick") => Tier::Quick,
                        other => machinery_failure(&format!("bad tier {:?}", other)),
                    };
                }
                "--replay" => {
                    i += 1;
                    let p = args.get(i).unwrap_or_else(|| machinery_failure("--replay needs a file"));
                    let txt = std::fs::read_to_string(p)
                        .unwrap_or_else(|e| machinery_failure(&format!("cannot read replay {}: {}", p, e)));
                    replay = Some(
                        serde_json::from_str::<Value>(&txt)
                            .unwrap_or_else(|e| machinery_failure(&format!("bad replay json: {}", e))),
                    );
                }
                other => machinery_failure(&format!("unknown argument {}", other)),
            }
            i += 1;
        }
        let seed = std::env::var("VERIF_SEED").ok().and_then(|s| s.parse::<u64>().ok()).unwrap_or(0);
        let root = verif_root();
        let mut known = vec![];
        let kf = root.join("findings").join("known_findings.json");
        if let Ok(txt) = std::fs::read_to_string(&kf) {
            let v: Value = serde_json::from_str(&txt)
                .unwrap_or_else(|e| machinery_failure(&format!("bad known_findings.json: {}", e)));
            if let Some(arr) = v.get("known").and_then(|k| k.as_array()) {
                for k in arr {
                    if k.get("property").and_then(|p| p.as_str()) == Some(id) {
                        known.push(Known {
                            signature: k["signature"].as_str().unwrap_or("").to_string(),
                            what: k["what"].as_str().unwrap_or("").to_string(),
                        });
                    }
                }
            }
        }
        Ctx {
            id: id.to_string(),
            tier,
            seed,
            root,
            replay,
            start: Instant::now(),
            known,
            violations: Mutex::new(BTreeMap::new()),
            legs: Mutex::new(vec![]),
            assumptions: Mutex::new(vec![]),
        }
    }

    pub fn quick(&self) -> bool {
        self.tier == Tier::Quick
    }

    /// The replay request (contents of the replay file) if this is a replay run.
    pub fn replay_request(&self) -> Option<&Value> {
        self.replay.as_ref()
    }

    pub fn elapsed_s(&self) -> f64 {
        self.start.elapsed().as_secs_f64()
    }

    pub fn assume(&self, s: &str) {
        let mut a = self.assumptions.lock().unwrap();
        if !a.iter().any(|x| x == s) {
            a.push(s.to_string());
        }
    }

    /// Record a violation. `signature` is the canonical, schedule-independent identity of the
    /// failure (used for de-duplication and for matching known findings); `detail` must carry
    /// everything needed to replay it (`leg`, configuration, choices / operations / input).
    /// Only the first report for a signature is kept (explorers enumerate smallest-first).
    pub fn violation(&self, leg: &str, signature: &str, detail: Value) {
        let mut v = self.violations.lock().unwrap();
        if v.contains_key(signature) || v.len() >= MAX_RECORDED_VIOLATIONS {
            return;
        }
        v.insert(
            signature.to_string(),
            json!({"property": self.id, "leg": leg, "signature": signature, "detail": detail}),
        );
    }

    pub fn violation_count(&self) -> usize {
        self.violations.lock().unwrap().len()
    }

    pub fn has_signature(&self, signature: &str) -> bool {
        self.violations.lock().unwrap().contains_key(signature)
    }

    pub fn add_leg(&self, leg: Leg) {
        eprintln!(
            "[{}] leg {:<28} engine={} states={} transitions={} evaluations={} nontrivial={} exhaustive={} wall={:.1}s",
            self.id, leg.name, leg.engine, leg.states, leg.transitions, leg.evaluations, leg.distinct_nontrivial,
            leg.exhaustive, leg.wall_s
        );
        if let Some(n) = sched::leg_notes(&leg.name) {
            eprintln!("[{}]     oracle applicability: {}", self.id, n.iter().map(|(k, v)| format!("{}={}", k, v)).collect::<Vec<_>>().join(", "));
        }
        self.legs.lock().unwrap().push(leg);
    }

    /// Write the evidence file, print the verdict lines and exit.
    pub fn finish(self, level: &str, explanation: &str) -> ! {
        let legs = self.legs.into_inner().unwrap();
        let violations = self.violations.into_inner().unwrap();
        let wall = self.start.elapsed().as_secs_f64();

        let mut real = 0;
        let mut out_lines = vec![];
        let replay_dir = self.root.join("replays");
        let _ = std::fs::create_dir_all(&replay_dir);
        let mut seen_known = vec![];
        for (sig, v) in &violations {
            if let Some(k) = self.known.iter().find(|k| &k.signature == sig) {
                seen_known.push(sig.clone());
                out_lines.push(format!("KNOWN-FINDING: property={} {} [{}]", self.id, k.what, sig));
            } else {
                real += 1;
                let h = fnv(sig.as_bytes());
                let p = replay_dir.join(format!("{}-{:016x}.json", self.id, h));
                let _ = std::fs::write(&p, serde_json::to_string_pretty(v).unwrap());
                out_lines.push(format!("VIOLATION property={} replay={}", self.id, p.display()));
                eprintln!("violation signature: {}", sig);
            }
        }
        for k in &self.known {
            if !seen_known.contains(&k.signature) && self.replay.is_none() {
                eprintln!("note: listed known finding not reproduced in this run: {}", k.signature);
            }
        }

        if self.replay.is_none() {
            let mut cov = Map::new();
            let sum = |f: fn(&Leg) -> u64| legs.iter().map(f).sum::<u64>();
            cov.insert("states".into(), json!(sum(|l| l.states)));
            cov.insert("transitions".into(), json!(sum(|l| l.transitions)));
            cov.insert("evaluations".into(), json!(sum(|l| l.evaluations)));
            cov.insert("traces_validated_against_impl".into(), json!(sum(|l| l.evaluations)));
            cov.insert("distinct_nontrivial".into(), json!(sum(|l| l.distinct_nontrivial)));
            cov.insert(
                "rule".into(),
                json!(legs.iter().map(|l| format!("{}: {}", l.name, l.rule)).collect::<Vec<_>>().join(" | ")),
            );
            let mut samples = vec![];
            for l in &legs {
                for s in l.samples.iter().take(3) {
                    samples.push(json!({"leg": l.name, "case": s}));
                }
            }
            cov.insert("samples".into(), Value::Array(samples));
            cov.insert("exhaustive".into(), json!(!legs.is_empty() && legs.iter().all(|l| l.exhaustive)));
            cov.insert("explanation".into(), json!(explanation));
            cov.insert(
                "legs".into(),
                Value::Array(
                    legs.iter()
                        .map(|l| {
                            json!({"name": l.name, "engine": l.engine, "states": l.states, "transitions": l.transitions,
                                "evaluations": l.evaluations, "distinct_nontrivial": l.distinct_nontrivial,
                                "exhaustive_within_bounds": l.exhaustive, "bounds": l.bounds, "rule": l.rule,
                                "oracle_applicability": sched::leg_notes(&l.name),
                                "wall_s": (l.wall_s * 1000.0).round() / 1000.0})
                        })
                        .collect(),
                ),
            );
            cov.insert("known_findings_reproduced".into(), json!(seen_known));
            let ev = json!({
                "property_id": self.id,
                "tier": self.tier.name(),
                "seed": self.seed,
                "level": level,
                "coverage": Value::Object(cov),
                "assumptions": self.assumptions.into_inner().unwrap(),
                "wall_s": (wall * 1000.0).round() / 1000.0,
                "violations": real,
            });
            let dir = self.root.join("evidence");
            let _ = std::fs::create_dir_all(&dir);
            let p = dir.join(format!("{}.json", self.id));
            if let Err(e) = std::fs::write(&p, serde_json::to_string_pretty(&ev).unwrap()) {
                machinery_failure(&format!("cannot write evidence {}: {}", p.display(), e));
            }
        }
        for l in out_lines {
            println!("{}", l);
        }
        if real > 0 {
            std::process::exit(1)
        }
        if self.replay.is_some() {
            println!("REPLAY-OK property={} (no unlisted violation reproduced)", self.id);
        }
        std::process::exit(0)
    }
}

pub fn fnv(bytes: &[u8]) -> u64 {
    let mut h: u64 = 0xcbf29ce484222325;
    for b in bytes {
        h ^= *b as u64;
        h = h.wrapping_mul(0x100000001b3);
    }
    h
}

/// Run `f` over `items` on `threads` worker threads (static striding), collecting results in
/// item order. Used for embarrassingly parallel enumeration.
pub fn par_map<T: Sync, R: Send, F: Fn(usize, &T) -> R + Sync>(items: &[T], threads: usize, f: F) -> Vec<R> {
    let n = items.len();
    let threads = threads.max(1).min(n.max(1));
    let mut out: Vec<Option<R>> = (0..n).map(|_| None).collect();
    let next = std::sync::atomic::AtomicUsize::new(0);
    let results: Mutex<Vec<(usize, R)>> = Mutex::new(Vec::with_capacity(n));
    std::thread::scope(|s| {
        for _ in 0..threads {
            s.spawn(|| loop {
                let i = next.fetch_add(1, std::sync::atomic::Ordering::Relaxed);
                if i >= n {
                    break;
                }
                let r = f(i, &items[i]);
                results.lock().unwrap().push((i, r));
            });
        }
    });
    for (i, r) in results.into_inner().unwrap() {
        out[i] = Some(r);
    }
    out.into_iter().map(|o| o.expect("worker panicked")).collect()
}

pub fn ncpu() -> usize {
    std::thread::available_parallelism().map(|n| n.get()).unwrap_or(4)
}

//! Engine E1: deviation-bounded stateless exploration of schedules over a controlled,
//! single-threaded executor.
//!
//! A `World` owns one or more real subject futures plus a finite menu of environment events.
//! At every step the world lists its enabled events in canonical priority order; choice 0 is the
//! canonical ("eager") schedule, any other choice costs one deviation. The explorer runs the
//! all-zero schedule and then, for every step of every explored execution and every alternative
//! at that step whose cumulative deviation count stays within the bound, the execution with that
//! prefix (classic iterative context bounding, with "deviation" in place of "preemption").
//!
//! Every execution runs on a fresh OS thread inside a fresh paused current-thread Tokio runtime
//! (fixed `select!` seed), so that thread-local state (coop budget, `RandomState` keys, Tokio's
//! RNG) starts identically each time. A prefix replay that meets a different number of enabled
//! events is a hard machinery error ("nondeterminism"), never a verdict.

use std::collections::{HashSet, VecDeque};
use std::future::Future;
use std::pin::Pin;
use std::sync::atomic::{AtomicBool, AtomicU64, Ordering};
use std::sync::{Arc, Condvar, Mutex};
use std::task::{Context, Poll, Wake, Waker};

/// A wake flag usable as a `Waker`.
pub struct WakeFlag(AtomicBool);

impl WakeFlag {
    pub fn new(set: bool) -> Arc<WakeFlag> {
        Arc::new(WakeFlag(AtomicBool::new(set)))
    }
    pub fn is_set(&self) -> bool {
        self.0.load(Ordering::SeqCst)
    }
    pub fn clear(&self) {
        self.0.store(false, Ordering::SeqCst)
    }
    pub fn set(&self) {
        self.0.store(true, Ordering::SeqCst)
    }
    pub fn waker(self: &Arc<Self>) -> Waker {
        Waker::from(self.clone())
    }
}

impl Wake for WakeFlag {
    fn wake(self: Arc<Self>) {
        self.0.store(true, Ordering::SeqCst)
    }
    fn wake_by_ref(self: &Arc<Self>) {
        self.0.store(true, Ordering::SeqCst)
    }
}

/// A subject future polled by the harness (never by Tokio).
pub struct Subject<T> {
    fut: Option<Pin<Box<dyn Future<Output = T>>>>,
    pub flag: Arc<WakeFlag>,
    pub result: Option<T>,
    pub polls: u64,
}

impl<T> Subject<T> {
    pub fn new(fut: impl Future<Output = T> + 'static) -> Self {
        Subject { fut: Some(Box::pin(fut)), flag: WakeFlag::new(true), result: None, polls: 0 }
    }
    pub fn alive(&self) -> bool {
        self.fut.is_some()
    }
    pub fn runnable(&self) -> bool {
        self.fut.is_some() && self.flag.is_set()
    }
    /// Poll once. Returns true if the future completed in this poll.
    pub fn poll(&mut self) -> bool {
        if let Some(f) = self.fut.as_mut() {
            self.flag.clear();
            self.polls += 1;
            let w = self.flag.waker();
            let mut cx = Context::from_waker(&w);
            if let Poll::Ready(r) = f.as_mut().poll(&mut cx) {
                self.result = Some(r);
                self.fut = None;
                return true;
            }
        }
        false
    }
    /// Drop the future (crash).
    pub fn kill(&mut self) {
        self.fut = None;
    }
}

#[derive(Clone, Debug)]
pub struct Ev {
    /// Harness-defined code of the event.
    pub code: u32,
}

/// What an execution produced.
#[derive(Clone, Debug, Default)]
pub struct Outcome {
    /// Digest of the observation logs at the end of the execution.
    pub digest: u64,
    /// (signature, explanation) for each oracle failure.
    pub violations: Vec<(String, String)>,
    /// Human readable observation log (filled only when tracing).
    pub log: Vec<String>,
}

pub trait World: Sized {
    type Cfg: Clone + Send + Sync + std::fmt::Debug + 'static;
    /// Build the world. Called inside the execution's Tokio runtime.
    fn new(cfg: &Self::Cfg, trace: bool) -> Self;
    /// Enabled events (codes) in canonical priority order; empty = execution is over.
    fn enabled(&mut self) -> Vec<u32>;
    /// Readable label for an event code.
    fn label(&self, code: u32) -> String;
    /// Fire one event.
    fn fire(&mut self, code: u32) -> impl Future<Output = ()>;
    /// Oracles and digest at the end of the execution.
    fn finish(self) -> Outcome;
    /// Seed of the runtime's random number generator (start branch of unbiased `select!`s); a
    /// configuration dimension, fixed within one execution.
    fn rng_seed(_cfg: &Self::Cfg) -> u64 {
        0
    }
}

#[derive(Clone, Debug, Default)]
pub struct ExecRecord {
    pub choices: Vec<u8>,
    pub nenabled: Vec<u8>,
    pub labels: Vec<String>,
    pub outcome: Outcome,
    pub horizon_hit: bool,
}

pub const HORIZON: usize = 4000;

fn run_in_runtime<W: World>(cfg: &W::Cfg, prefix: &[u8], trace: bool) -> Result<ExecRecord, String> {
    let rt = tokio::runtime::Builder::new_current_thread()
        .enable_time()
        .start_paused(true)
        .rng_seed(tokio::runtime::RngSeed::from_bytes(format!("swimos-verif{}", match W::rng_seed(cfg) { 0 => String::new(), n => format!("-{}", n) }).as_bytes()))
        .build()
        .map_err(|e| format!("runtime: {}", e))?;
    rt.block_on(async {
        let mut w = W::new(cfg, trace);
        let mut rec = ExecRecord::default();
        let mut step = 0usize;
        loop {
            let en = w.enabled();
            if en.is_empty() {
                break;
            }
            if step >= HORIZON {
                rec.horizon_hit = true;
                break;
            }
            let choice = if step < prefix.len() {
                let c = prefix[step] as usize;
                if c >= en.len() {
                    return Err(format!(
                        "nondeterminism: replaying prefix {:?} step {} wants choice {} of {} enabled",
                        prefix,
                        step,
                        c,
                        en.len()
                    ));
                }
                c
            } else {
                0
            };
            rec.choices.push(choice as u8);
            rec.nenabled.push(en.len().min(255) as u8);
            if trace {
                rec.labels.push(w.label(en[choice]));
            }
            w.fire(en[choice]).await;
            step += 1;
        }
        rec.outcome = w.finish();
        Ok(rec)
    })
}

/// Run one execution on a fresh OS thread.
pub fn run_one<W: World>(cfg: &W::Cfg, prefix: &[u8], trace: bool) -> Result<ExecRecord, String> {
    let cfg = cfg.clone();
    let prefix = prefix.to_vec();
    let prefix_copy = prefix.clone();
    let (tx, rx) = std::sync::mpsc::channel();
    let handle = std::thread::Builder::new()
        .stack_size(stack_bytes())
        .spawn(move || {
            let r = std::panic::catch_unwind(std::panic::AssertUnwindSafe(|| run_in_runtime::<W>(&cfg, &prefix, trace)));
            let r = match r {
                Ok(r) => r,
                Err(p) => {
                    let msg = if let Some(s) = p.downcast_ref::<&str>() {
                        s.to_string()
                    } else if let Some(s) = p.downcast_ref::<String>() {
                        s.clone()
                    } else {
                        "panic".to_string()
                    };
                    Err(format!("panic: {}", msg))
                }
            };
            let _ = tx.send(r);
        })
        .map_err(|e| format!("spawn: {}", e))?;
    // Watchdog: a subject that spins inside a single poll never hands control back to the step
    // horizon. It is recognised by the CPU time the execution thread has burnt (not by wall time:
    // on a loaded machine a healthy execution may simply not have been scheduled). The thread is
    // then abandoned (it cannot be killed) and the execution reported as a termination violation.
    let limit = std::env::var("VERIF_EXEC_TIMEOUT_S").ok().and_then(|s| s.parse::<u64>().ok()).unwrap_or(5);
    let cpu_of = |h: &std::thread::JoinHandle<()>| -> Option<f64> {
        use std::os::unix::thread::JoinHandleExt;
        let mut clk: libc::clockid_t = 0;
        // SAFETY: the handle refers to a thread that has not been joined or detached
        let rc = unsafe { libc::pthread_getcpuclockid(h.as_pthread_t(), &mut clk) };
        if rc != 0 {
            return None;
        }
        let mut ts = libc::timespec { tv_sec: 0, tv_nsec: 0 };
        // SAFETY: plain out-parameter call
        let rc = unsafe { libc::clock_gettime(clk, &mut ts) };
        if rc != 0 {
            return None;
        }
        Some(ts.tv_sec as f64 + ts.tv_nsec as f64 * 1e-9)
    };
    let started = std::time::Instant::now();
    // (CPU seconds, wall instant) of the previous sample: a thread cannot burn more CPU than wall
    // time has passed, so a reading that jumps further is not this thread's clock (seen once in a
    // thorough run: 305 s of "CPU" reported at the first sample that exceeded the limit, for an
    // execution that replays in milliseconds - the clock id of a thread that has just exited
    // resolves to another clock) and is discarded
    let mut last_sample: (f64, std::time::Instant) = (0.0, started);
    loop {
        match rx.recv_timeout(std::time::Duration::from_secs(2)) {
            Ok(r) => {
                // the thread is past its last statement of interest: wait for it to be gone, so
                // that no execution thread is still unwinding its runtime when the process exits
                let _ = handle.join();
                return r;
            }
            Err(std::sync::mpsc::RecvTimeoutError::Disconnected) => return Err("execution thread died".to_string()),
            Err(std::sync::mpsc::RecvTimeoutError::Timeout) => {
                if handle.is_finished() {
                    // the result is (about to be) in the channel
                    match rx.recv_timeout(std::time::Duration::from_secs(5)) {
                        Ok(r) => return r,
                        Err(_) => return Err("execution thread ended without a result".to_string()),
                    }
                }
                let cpu = cpu_of(&handle).and_then(|c| {
                    let plausible = c - last_sample.0 <= last_sample.1.elapsed().as_secs_f64() + 1.0;
                    if plausible {
                        last_sample = (c, std::time::Instant::now());
                        Some(c)
                    } else {
                        Some(last_sample.0)
                    }
                });
                let spinning = match cpu {
                    Some(c) => c >= limit as f64,
                    // no CPU clock: fall back to a generous wall limit
                    None => started.elapsed().as_secs() >= limit * 10,
                };
                if spinning {
                    let mut rec = ExecRecord::default();
                    rec.choices = prefix_copy.clone();
                    rec.nenabled = vec![1; prefix_copy.len()];
                    rec.outcome.violations.push((
                        "execution did not return: the subject spins inside one poll (livelock)".to_string(),
                        format!("no result after {:.0} s of CPU time of the execution thread ({} s wall); schedule prefix {:?}", cpu.unwrap_or(-1.0), started.elapsed().as_secs(), prefix_copy),
                    ));
                    return Ok(rec);
                }
                if started.elapsed().as_secs() >= limit * 40 {
                    return Err(format!("execution neither returned nor burnt CPU for {} s (machine stalled?)", started.elapsed().as_secs()));
                }
            }
        }
    }
}

#[derive(Debug, Default, Clone)]
pub struct ExploreStats {
    pub executions: u64,
    pub steps: u64,
    pub distinct_digests: u64,
    /// Executions with >= 1 deviation whose digest differs from the canonical execution's.
    pub nontrivial: u64,
    pub max_len: usize,
    pub capped: bool,
    /// (signature, explanation, choices) - first (fewest-deviation-first order is approximate
    /// under parallel search; each signature keeps the shortest schedule seen).
    pub violations: Vec<(String, String, Vec<u8>)>,
    pub machinery_errors: Vec<String>,
    /// What the oracle said about its own applicability, per execution (see `oracle_note`).
    pub oracle_notes: std::collections::BTreeMap<String, u64>,
}

// ------------------------------------------------------------------------------------------
// Oracle applicability notes. An oracle that declines to judge an execution (an external stop, a
// fault the harness injected, ...) says so with `oracle_note("skipped: <why>")`, and says
// `oracle_note("judged")` when it evaluated its laws. The counts travel with the exploration
// statistics into the evidence of the leg, so a leg whose laws are silently vacuous shows up as
// `judged` = 0 (or close to it) instead of as a quiet pass.
// ------------------------------------------------------------------------------------------

static ORACLE_NOTES: Mutex<std::collections::BTreeMap<String, u64>> = Mutex::new(std::collections::BTreeMap::new());
static LEG_NOTES: Mutex<std::collections::BTreeMap<String, std::collections::BTreeMap<String, u64>>> = Mutex::new(std::collections::BTreeMap::new());

pub fn oracle_note(key: &str) {
    *ORACLE_NOTES.lock().unwrap().entry(key.to_string()).or_default() += 1;
}

fn take_oracle_notes() -> std::collections::BTreeMap<String, u64> {
    std::mem::take(&mut *ORACLE_NOTES.lock().unwrap())
}

/// Adds the notes of one exploration to those recorded for `leg`.
pub fn record_leg_notes(leg: &str, notes: &std::collections::BTreeMap<String, u64>) {
    let mut g = LEG_NOTES.lock().unwrap();
    let e = g.entry(leg.to_string()).or_default();
    for (k, v) in notes {
        *e.entry(k.clone()).or_default() += v;
    }
}

pub fn leg_notes(leg: &str) -> Option<std::collections::BTreeMap<String, u64>> {
    LEG_NOTES.lock().unwrap().get(leg).cloned().filter(|m| !m.is_empty())
}

struct Shared {
    queue: Mutex<(VecDeque<(Vec<u8>, u32)>, usize)>, // (work, in-flight)
    cv: Condvar,
}

/// Explore all schedules of `cfg` with at most `bound` deviations (or until `max_exec`).
pub fn explore<W: World>(cfg: &W::Cfg, bound: u32, max_exec: u64, threads: usize) -> ExploreStats {
    explore_until::<W>(cfg, bound, max_exec, threads, None)
}

/// As `explore`, additionally stopping (and reporting `capped`) once `deadline` has passed.
pub fn explore_until<W: World>(cfg: &W::Cfg, bound: u32, max_exec: u64, threads: usize, deadline: Option<std::time::Instant>) -> ExploreStats {
    let mut stats = ExploreStats::default();
    let _ = take_oracle_notes();
    // canonical schedule twice: determinism check
    let c1 = match run_one::<W>(cfg, &[], false) {
        Ok(r) => r,
        Err(e) => {
            stats.machinery_errors.push(format!("canonical: {}", e));
            return stats;
        }
    };
    match run_one::<W>(cfg, &[], false) {
        Ok(c2) => {
            if c2.outcome.digest != c1.outcome.digest || c2.choices.len() != c1.choices.len() || c2.nenabled != c1.nenabled {
                stats.machinery_errors.push(format!("nondeterminism: canonical schedule of {:?} differs between two runs", cfg));
                return stats;
            }
        }
        Err(e) => {
            stats.machinery_errors.push(format!("canonical (2nd): {}", e));
            return stats;
        }
    }
    let canon_digest = c1.outcome.digest;

    let shared = Arc::new(Shared { queue: Mutex::new((VecDeque::new(), 0)), cv: Condvar::new() });
    shared.queue.lock().unwrap().0.push_back((vec![], 0));
    let executions = AtomicU64::new(0);
    let steps = AtomicU64::new(0);
    let nontrivial = AtomicU64::new(0);
    let capped = AtomicBool::new(false);
    let digests: Mutex<HashSet<u64>> = Mutex::new(HashSet::new());
    let viols: Mutex<Vec<(String, String, Vec<u8>)>> = Mutex::new(vec![]);
    let errs: Mutex<Vec<String>> = Mutex::new(vec![]);
    let max_len = AtomicU64::new(0);

    std::thread::scope(|s| {
        for _ in 0..threads.max(1) {
            s.spawn(|| loop {
                let item = {
                    let mut q = shared.queue.lock().unwrap();
                    loop {
                        if let Some(it) = q.0.pop_back() {
                            q.1 += 1;
                            break Some(it);
                        }
                        if q.1 == 0 {
                            break None;
                        }
                        q = shared.cv.wait(q).unwrap();
                    }
                };
                let Some((prefix, devs)) = item else {
                    shared.cv.notify_all();
                    break;
                };
                let n = executions.fetch_add(1, Ordering::Relaxed);
                let late = deadline.map(|d| std::time::Instant::now() > d).unwrap_or(false);
                if n >= max_exec || late || !errs.lock().unwrap().is_empty() {
                    if n >= max_exec || late {
                        capped.store(true, Ordering::Relaxed);
                    }
                    executions.fetch_sub(1, Ordering::Relaxed);
                    let mut q = shared.queue.lock().unwrap();
                    q.0.clear();
                    q.1 -= 1;
                    shared.cv.notify_all();
                    continue;
                }
                match run_one::<W>(cfg, &prefix, false) {
                    Ok(rec) => {
                        steps.fetch_add(rec.choices.len() as u64, Ordering::Relaxed);
                        max_len.fetch_max(rec.choices.len() as u64, Ordering::Relaxed);
                        digests.lock().unwrap().insert(rec.outcome.digest);
                        if devs > 0 && rec.outcome.digest != canon_digest {
                            nontrivial.fetch_add(1, Ordering::Relaxed);
                        }
                        if rec.horizon_hit {
                            let mut v = viols.lock().unwrap();
                            let sig = "no quiescence within horizon".to_string();
                            if !v.iter().any(|x| x.0 == sig) {
                                v.push((sig, format!("execution still had enabled events after {} steps", HORIZON), rec.choices.clone()));
                            }
                        }
                        if !rec.outcome.violations.is_empty() {
                            let mut v = viols.lock().unwrap();
                            for (sig, expl) in &rec.outcome.violations {
                                if let Some(old) = v.iter_mut().find(|x| &x.0 == sig) {
                                    if rec.choices.len() < old.2.len() {
                                        old.1 = expl.clone();
                                        old.2 = rec.choices.clone();
                                    }
                                } else if v.len() < 64 {
                                    v.push((sig.clone(), expl.clone(), rec.choices.clone()));
                                }
                            }
                        }
                        let mut newwork = vec![];
                        if devs < bound {
                            for i in prefix.len()..rec.choices.len() {
                                for alt in 1..rec.nenabled[i] {
                                    let mut p = rec.choices[..i].to_vec();
                                    p.push(alt);
                                    newwork.push((p, devs + 1));
                                }
                            }
                        }
                        let mut q = shared.queue.lock().unwrap();
                        for w in newwork {
                            q.0.push_back(w);
                        }
                        q.1 -= 1;
                        shared.cv.notify_all();
                    }
                    Err(e) => {
                        errs.lock().unwrap().push(format!("cfg {:?} prefix {:?}: {}", cfg, prefix, e));
                        let mut q = shared.queue.lock().unwrap();
                        q.0.clear();
                        q.1 -= 1;
                        shared.cv.notify_all();
                    }
                }
            });
        }
    });
    stats.executions = executions.load(Ordering::Relaxed);
    stats.steps = steps.load(Ordering::Relaxed);
    stats.nontrivial = nontrivial.load(Ordering::Relaxed);
    stats.capped = capped.load(Ordering::Relaxed);
    stats.distinct_digests = digests.lock().unwrap().len() as u64;
    stats.max_len = max_len.load(Ordering::Relaxed) as usize;
    stats.violations = viols.into_inner().unwrap();
    stats.machinery_errors = errs.into_inner().unwrap();
    stats.oracle_notes = take_oracle_notes();
    stats
}

/// Aggregate several `explore` results into one.
pub fn merge(into: &mut ExploreStats, other: ExploreStats) {
    into.executions += other.executions;
    into.steps += other.steps;
    into.distinct_digests += other.distinct_digests;
    into.nontrivial += other.nontrivial;
    into.max_len = into.max_len.max(other.max_len);
    into.capped |= other.capped;
    into.violations.extend(other.violations);
    into.machinery_errors.extend(other.machinery_errors);
    for (k, v) in other.oracle_notes {
        *into.oracle_notes.entry(k).or_default() += v;
    }
}

/// Stack size of an execution thread. Small enough that glibc's thread-stack cache (40 MiB by
/// default) serves every spawn without a fresh mmap/munmap when 16 workers spawn concurrently.
fn stack_bytes() -> usize {
    std::env::var("VERIF_EXEC_STACK_KB").ok().and_then(|s| s.parse::<usize>().ok()).unwrap_or(1024) << 10
}

// ------------------------------------------------------------------------------------------
// Process-parallel grid exploration.
//
// Every execution runs on a fresh OS thread; thread creation and exit serialise on the
// per-process memory-map lock, so 16 worker *threads* spawning threads reach only ~1.5x the
// throughput of one. Worker *processes* scale: the parent re-executes its own binary once per
// worker with VERIF_WORKER="<leg>|<i>|<n>"; the child rebuilds the same (deterministic) list of
// configurations, explores the slice i mod n sequentially, prints one JSON line per configuration
// and exits; the parent merges the lines.
// ------------------------------------------------------------------------------------------

pub fn worker_spec() -> Option<(String, usize, usize)> {
    let v = std::env::var("VERIF_WORKER").ok()?;
    let mut it = v.rsplitn(3, '|');
    let n = it.next()?.parse().ok()?;
    let i = it.next()?.parse().ok()?;
    let name = it.next()?.to_string();
    Some((name, i, n))
}

pub fn is_worker() -> bool {
    std::env::var("VERIF_WORKER").is_ok()
}

pub enum GridOutcome {
    /// This process is a worker for another leg: skip this leg silently.
    NotMine,
    /// Results aligned with the configuration list (None = not started before the wall cap).
    Done(Vec<Option<ExploreStats>>),
}

fn stats_to_json(idx: usize, st: &ExploreStats) -> String {
    serde_json::json!({
        "idx": idx, "executions": st.executions, "steps": st.steps, "distinct_digests": st.distinct_digests,
        "nontrivial": st.nontrivial, "max_len": st.max_len, "capped": st.capped,
        "violations": st.violations.iter().map(|(s, e, c)| serde_json::json!([s, e, c])).collect::<Vec<_>>(),
        "machinery_errors": st.machinery_errors,
        "oracle_notes": st.oracle_notes,
    })
    .to_string()
}

fn stats_from_json(v: &serde_json::Value) -> (usize, ExploreStats) {
    let mut st = ExploreStats::default();
    st.executions = v["executions"].as_u64().unwrap_or(0);
    st.steps = v["steps"].as_u64().unwrap_or(0);
    st.distinct_digests = v["distinct_digests"].as_u64().unwrap_or(0);
    st.nontrivial = v["nontrivial"].as_u64().unwrap_or(0);
    st.max_len = v["max_len"].as_u64().unwrap_or(0) as usize;
    st.capped = v["capped"].as_bool().unwrap_or(false);
    if let Some(a) = v["violations"].as_array() {
        for x in a {
            let choices: Vec<u8> = x[2].as_array().map(|c| c.iter().map(|y| y.as_u64().unwrap_or(0) as u8).collect()).unwrap_or_default();
            st.violations.push((x[0].as_str().unwrap_or("").to_string(), x[1].as_str().unwrap_or("").to_string(), choices));
        }
    }
    if let Some(a) = v["machinery_errors"].as_array() {
        st.machinery_errors = a.iter().map(|x| x.as_str().unwrap_or("").to_string()).collect();
    }
    if let Some(m) = v["oracle_notes"].as_object() {
        for (k, n) in m {
            st.oracle_notes.insert(k.clone(), n.as_u64().unwrap_or(0));
        }
    }
    (v["idx"].as_u64().unwrap_or(0) as usize, st)
}

pub fn grid_explore<W: World>(leg: &str, cfgs: &[W::Cfg], bound: u32, max_exec: u64, wall_cap_s: f64) -> GridOutcome {
    let t0 = std::time::Instant::now();
    let deadline = t0 + std::time::Duration::from_secs_f64(wall_cap_s);
    if let Some((name, i, n)) = worker_spec() {
        if name != leg {
            return GridOutcome::NotMine;
        }
        use std::io::Write;
        let out = std::io::stdout();
        for (j, cfg) in cfgs.iter().enumerate() {
            if j % n != i {
                continue;
            }
            if std::time::Instant::now() > deadline {
                break;
            }
            let st = explore_until::<W>(cfg, bound, max_exec, 1, Some(deadline));
            let line = stats_to_json(j, &st);
            let mut h = out.lock();
            let _ = writeln!(h, "GRIDRESULT {}", line);
        }
        std::process::exit(0);
    }
    let n = std::env::var("VERIF_WORKERS").ok().and_then(|s| s.parse::<usize>().ok()).unwrap_or_else(crate::ncpu).max(1).min(cfgs.len().max(1));
    let exe = std::env::current_exe().expect("current_exe");
    let args: Vec<String> = std::env::args().skip(1).collect();
    let mut children = vec![];
    for i in 0..n {
        let c = std::process::Command::new(&exe)
            .args(&args)
            .env("VERIF_WORKER", format!("{}|{}|{}", leg, i, n))
            .stdin(std::process::Stdio::null())
            .stdout(std::process::Stdio::piped())
            .stderr(std::process::Stdio::null())
            .spawn();
        match c {
            Ok(c) => children.push(c),
            Err(e) => crate::machinery_failure(&format!("cannot spawn grid worker: {}", e)),
        }
    }
    let mut results: Vec<Option<ExploreStats>> = (0..cfgs.len()).map(|_| None).collect();
    for c in children {
        let out = c.wait_with_output().unwrap_or_else(|e| crate::machinery_failure(&format!("grid worker: {}", e)));
        if !out.status.success() {
            crate::machinery_failure(&format!("grid worker for leg {} exited with {:?}", leg, out.status.code()));
        }
        for line in String::from_utf8_lossy(&out.stdout).lines() {
            if let Some(j) = line.strip_prefix("GRIDRESULT ") {
                if let Ok(v) = serde_json::from_str::<serde_json::Value>(j) {
                    let (idx, st) = stats_from_json(&v);
                    record_leg_notes(leg, &st.oracle_notes);
                    if idx < results.len() {
                        results[idx] = Some(st);
                    }
                }
            }
        }
    }
    GridOutcome::Done(results)
}
